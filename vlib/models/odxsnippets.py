"""ODX snippets for the element kinds that neither the shipped examples nor the message IR emitter
(vlib/emit.py) contain.  `decorate_more(draw, xml)` inserts them by text insertion into a document
produced by `emit.message_doc` (one container `dlc`, one layer `layer`, services `svc<j>`).

Every snippet is valid ODX 2.2 restricted to what the strict-mode parser of odxtools accepts (each
was written against the `from_et` / `_resolve_*` of its class).  Known parser restrictions that
shape the snippets (reported in notes/C11.md, not hidden):

* DYN-ID-DEF-MODE-INFO: only the all-SNREF form is used (the parser leaves `*_snref` unbound when
  the ODXLINK form is used);
* DIAG-VARIABLE: no VARIABLE-GROUP-REF (VARIABLE-GROUP objects are not entered into the ODXLINK
  database, the reference can never be resolved);
* SUB-COMPONENT: no SUB-COMPONENT-PARAM-CONNECTORS (their `_resolve_snrefs` raises for every service
  that has a request, i.e. always).

Free text carries XML meta characters wherever the parser takes it verbatim; ids are prefixed
`dx_` and unique per document.  A kind is drawn with probability `P` (conditional kinds that need
an anchor element - a TABLE, a DTC-DOP - use `P_COND` when the anchor exists).
"""
from __future__ import annotations

import re
from typing import Callable, List, Optional, Tuple

P = 22          # percent
P_COND = 60

T = "a&amp;b&lt;c&gt;\"d'e"            # element text
A = "a&amp;b&lt;c&gt;&quot;d'e"        # attribute value
AUX_FILES = {"c11job.py": b"def main():\n    pass\n", "c11lib.py": b"# library\n"}

KINDS = ["company-datas", "admin-data:layer", "admin-data:dop", "admin-data:request", "admin-data:service",
         "funct-class", "audience", "state-chart", "single-ecu-job", "library", "related-diag-comm",
         "dyn-defined-spec", "diag-variable", "variable-group", "table-diag-comm-connector", "sub-component",
         "unit-spec", "constr", "linked-dtc-dop", "empty-long-name"]


_CAPS: dict = {}


def caps() -> dict:
    """what the parser under test accepts (probed once per process with tiny documents in strict mode):
    forms that the pinned parser rejected although they are valid ODX are only generated once it takes them"""
    if _CAPS:
        return _CAPS
    import io
    import warnings
    import odxtools.exceptions
    from odxtools.database import Database
    head = ('<?xml version="1.0"?><ODX MODEL-VERSION="2.2.0" xmlns:xsi="http://www.w3.org/2001/XMLSchema-instance">'
            '<DIAG-LAYER-CONTAINER ID="dlc"><SHORT-NAME>dlc</SHORT-NAME><BASE-VARIANTS><BASE-VARIANT ID="layer">'
            '<SHORT-NAME>layer</SHORT-NAME><DIAG-COMMS>'
            '<DIAG-SERVICE ID="a" DIAGNOSTIC-CLASS="CLEAR-DYN-DEF-MESSAGE"><SHORT-NAME>a</SHORT-NAME><REQUEST-REF ID-REF="r"/></DIAG-SERVICE>'
            '<DIAG-SERVICE ID="b" DIAGNOSTIC-CLASS="READ-DYN-DEFINED-MESSAGE"><SHORT-NAME>b</SHORT-NAME><REQUEST-REF ID-REF="r"/></DIAG-SERVICE>'
            '<DIAG-SERVICE ID="c" DIAGNOSTIC-CLASS="DYN-DEF-MESSAGE"><SHORT-NAME>c</SHORT-NAME><REQUEST-REF ID-REF="r"/></DIAG-SERVICE>'
            '</DIAG-COMMS><REQUESTS><REQUEST ID="r"><SHORT-NAME>r</SHORT-NAME></REQUEST></REQUESTS>')
    tail = '</BASE-VARIANT></BASE-VARIANTS></DIAG-LAYER-CONTAINER></ODX>'
    probes = {
        "variable-group": '<VARIABLE-GROUPS><VARIABLE-GROUP ID="vg"><SHORT-NAME>vg</SHORT-NAME></VARIABLE-GROUP></VARIABLE-GROUPS>',
        "variable-group-ref": ('<DIAG-VARIABLES><DIAG-VARIABLE ID="dv"><SHORT-NAME>dv</SHORT-NAME><VARIABLE-GROUP-REF ID-REF="vg"/>'
                               '</DIAG-VARIABLE></DIAG-VARIABLES><VARIABLE-GROUPS><VARIABLE-GROUP ID="vg"><SHORT-NAME>vg</SHORT-NAME>'
                               '</VARIABLE-GROUP></VARIABLE-GROUPS>'),
        "dyn-ref": ('<DYN-DEFINED-SPEC><DYN-ID-DEF-MODE-INFOS><DYN-ID-DEF-MODE-INFO><DEF-MODE>x</DEF-MODE>'
                    '<CLEAR-DYN-DEF-MESSAGE-REF ID-REF="a"/><READ-DYN-DEF-MESSAGE-REF ID-REF="b"/><DYN-DEF-MESSAGE-REF ID-REF="c"/>'
                    '</DYN-ID-DEF-MODE-INFO></DYN-ID-DEF-MODE-INFOS></DYN-DEFINED-SPEC>'),
    }
    old = odxtools.exceptions.strict_mode
    odxtools.exceptions.strict_mode = True
    try:
        for name, body in probes.items():
            try:
                with warnings.catch_warnings():
                    warnings.simplefilter("ignore")
                    db = Database()
                    db.add_odx_file(io.BytesIO((head + body + tail).encode()))
                    db.refresh()
                _CAPS[name] = True
            except Exception:
                _CAPS[name] = False
    finally:
        odxtools.exceptions.strict_mode = old
    return _CAPS


def _layer_tag(xml: str) -> Optional[str]:
    m = re.search(r'<([A-Z-]+) ID="layer">', xml)
    return m.group(1) if m else None


def _before(xml: str, marker: str, text: str, last: bool = False) -> str:
    i = xml.rfind(marker) if last else xml.find(marker)
    if i < 0:
        raise AssertionError(f"anchor {marker} not found")
    return xml[:i] + text + xml[i:]


def _after(xml: str, marker: str, text: str) -> str:
    i = xml.find(marker)
    if i < 0:
        raise AssertionError(f"anchor {marker} not found")
    i += len(marker)
    return xml[:i] + text + xml[i:]


def _into_section(xml: str, section: str, text: str, parent_close: str) -> str:
    """append `text` to the wrapper element `section` (created in front of `parent_close` if absent)"""
    if f"<{section}>" in xml:
        return _before(xml, f"</{section}>", text)
    return _before(xml, parent_close, f"<{section}>{text}</{section}>", last=True)


def _svc0_insert(xml: str, text: str) -> str:
    """insert sub-elements of DIAG-SERVICE svc0 in front of its REQUEST-REF"""
    i = xml.find('<DIAG-SERVICE ID="svc0"')
    j = xml.find("<REQUEST-REF", i)
    if i < 0 or j < 0:
        raise AssertionError("svc0 not found")
    return xml[:j] + text + xml[j:]


def _admin_data(with_refs: bool) -> str:
    refs = ('<COMPANY-DOC-INFOS><COMPANY-DOC-INFO><COMPANY-DATA-REF ID-REF="dx_cd"/><TEAM-MEMBER-REF ID-REF="dx_tm"/>'
            f'<DOC-LABEL>{T}</DOC-LABEL></COMPANY-DOC-INFO></COMPANY-DOC-INFOS>') if with_refs else ""
    tm = '<TEAM-MEMBER-REF ID-REF="dx_tm"/>' if with_refs else ""
    cri = (f'<COMPANY-REVISION-INFOS><COMPANY-REVISION-INFO><COMPANY-DATA-REF ID-REF="dx_cd"/>'
           f'<REVISION-LABEL>r{T}</REVISION-LABEL><STATE>s{T}</STATE></COMPANY-REVISION-INFO>'
           f'</COMPANY-REVISION-INFOS>') if with_refs else ""
    return (f'<ADMIN-DATA><LANGUAGE>en-{T}</LANGUAGE>{refs}<DOC-REVISIONS><DOC-REVISION>{tm}'
            f'<REVISION-LABEL>1.0 {T}</REVISION-LABEL><STATE>{T}</STATE><DATE>2024-01-01T00:00:00</DATE>'
            f'<TOOL>{T}</TOOL>{cri}<MODIFICATIONS><MODIFICATION><CHANGE>{T}</CHANGE><REASON>{T}</REASON>'
            f'</MODIFICATION><MODIFICATION><CHANGE>second</CHANGE></MODIFICATION></MODIFICATIONS>'
            f'</DOC-REVISION><DOC-REVISION><DATE>2024-02-02T00:00:00</DATE></DOC-REVISION></DOC-REVISIONS></ADMIN-DATA>')


COMPANY_DATAS = (
    f'<COMPANY-DATAS><COMPANY-DATA ID="dx_cd" OID="{A}"><SHORT-NAME>dx_cd</SHORT-NAME><LONG-NAME>{T}</LONG-NAME>'
    f'<DESC><p>co &amp; mp</p></DESC><ROLES><ROLE>{T}</ROLE><ROLE>second</ROLE></ROLES><TEAM-MEMBERS>'
    f'<TEAM-MEMBER ID="dx_tm" OID="{A}"><SHORT-NAME>dx_tm</SHORT-NAME><LONG-NAME>{T}</LONG-NAME><ROLES><ROLE>{T}</ROLE></ROLES>'
    f'<DEPARTMENT>{T}</DEPARTMENT><ADDRESS>{T}</ADDRESS><ZIP>{T}</ZIP><CITY>{T}</CITY><PHONE>{T}</PHONE><FAX>{T}</FAX>'
    f'<EMAIL>{T}</EMAIL></TEAM-MEMBER></TEAM-MEMBERS><COMPANY-SPECIFIC-INFO><RELATED-DOCS><RELATED-DOC><XDOC>'
    f'<SHORT-NAME>dx_xdoc</SHORT-NAME><LONG-NAME>{T}</LONG-NAME><NUMBER>{T}</NUMBER><STATE>{T}</STATE>'
    f'<DATE>2024-01-01T00:00:00</DATE><PUBLISHER>{T}</PUBLISHER><URL>http://x/?a=1&amp;b=2</URL><POSITION>{T}</POSITION>'
    f'</XDOC><DESC><p>rel &lt;doc&gt;</p></DESC></RELATED-DOC></RELATED-DOCS></COMPANY-SPECIFIC-INFO></COMPANY-DATA>'
    f'</COMPANY-DATAS>')

HELPER_DOP = ('<DATA-OBJECT-PROP ID="dx_dop"><SHORT-NAME>dx_dop</SHORT-NAME><COMPU-METHOD><CATEGORY>IDENTICAL</CATEGORY>'
              '</COMPU-METHOD><DIAG-CODED-TYPE BASE-DATA-TYPE="A_UINT32" xsi:type="STANDARD-LENGTH-TYPE">'
              '<BIT-LENGTH>8</BIT-LENGTH></DIAG-CODED-TYPE><PHYSICAL-TYPE BASE-DATA-TYPE="A_UINT32"/></DATA-OBJECT-PROP>')


class _Doc:
    def __init__(self, xml: str):
        self.xml = xml
        self.feats: List[str] = []
        self.lt = _layer_tag(xml)
        self.close = f"</{self.lt}>"

    # -- helpers that are added at most once ------------------------------------------
    def need_company(self) -> None:
        if 'ID="dx_cd"' not in self.xml:
            self.xml = _after(self.xml, f'<{self.lt} ID="layer"><SHORT-NAME>layer</SHORT-NAME>', COMPANY_DATAS)

    def need_dop(self) -> str:
        if 'ID="dx_dop"' not in self.xml:
            self.xml = _into_section(self.xml, "DATA-OBJECT-PROPS", HELPER_DOP, "</DIAG-DATA-DICTIONARY-SPEC>")
        return "dx_dop"

    def need_service(self, name: str, attrs: str = "") -> str:
        if f'ID="{name}"' not in self.xml:
            self.xml = _before(self.xml, "</REQUESTS>", f'<REQUEST ID="{name}_rq"><SHORT-NAME>{name}_rq</SHORT-NAME></REQUEST>')
            self.xml = _before(self.xml, "</DIAG-COMMS>",
                               f'<DIAG-SERVICE ID="{name}"{attrs}><SHORT-NAME>{name}</SHORT-NAME>'
                               f'<REQUEST-REF ID-REF="{name}_rq"/></DIAG-SERVICE>')
        return name

    def first_table(self) -> Optional[Tuple[str, Optional[str]]]:
        m = re.search(r'<TABLE ID="([^"]+)"', self.xml)
        if not m:
            return None
        j = self.xml.find("</TABLE>", m.start())
        r = re.search(r'<TABLE-ROW ID="[^"]+"[^>]*><SHORT-NAME>([^<]+)</SHORT-NAME>', self.xml[m.start():j])
        tn = re.search(r'<TABLE ID="[^"]+"[^>]*><SHORT-NAME>([^<]+)</SHORT-NAME>', self.xml[m.start():j])
        return m.group(1), (r.group(1) if r else None), (tn.group(1) if tn else None)  # type: ignore

    def first_dtc_dop(self) -> Optional[Tuple[str, List[Tuple[str, str]]]]:
        m = re.search(r'<DTC-DOP ID="([^"]+)"', self.xml)
        if not m:
            return None
        j = self.xml.find("</DTC-DOP>", m.start())
        dtcs = re.findall(r'<DTC ID="([^"]+)"[^>]*><SHORT-NAME>([^<]+)</SHORT-NAME>', self.xml[m.start():j])
        return m.group(1), dtcs


# ---------------------------------------------------------------------------
# the kinds
# ---------------------------------------------------------------------------
def k_company_datas(d: _Doc, draw) -> bool:
    d.need_company()
    return True


def k_admin_layer(d: _Doc, draw) -> bool:
    d.need_company()
    d.xml = _after(d.xml, f'<{d.lt} ID="layer"><SHORT-NAME>layer</SHORT-NAME>', _admin_data(True))
    return True


def _after_names(xml: str, start: int) -> int:
    """index behind SHORT-NAME / LONG-NAME / DESC of the element starting at `start`"""
    m = re.compile(r'<[A-Z-]+(?: [^>]*)?>(?:<SHORT-NAME>[^<]*</SHORT-NAME>)(?:<LONG-NAME>[^<]*</LONG-NAME>|<LONG-NAME/>)?'
                   r'(?:<DESC(?: [^>]*)?>.*?</DESC>)?', re.S).match(xml, start)
    if not m:
        raise AssertionError("element head not recognised")
    return m.end()


def k_admin_dop(d: _Doc, draw) -> bool:
    i = d.xml.find("<DATA-OBJECT-PROP ID=")
    if i < 0:
        d.need_dop()
        i = d.xml.find("<DATA-OBJECT-PROP ID=")
    d.need_company()
    i = d.xml.find("<DATA-OBJECT-PROP ID=")
    j = _after_names(d.xml, i)
    d.xml = d.xml[:j] + _admin_data(draw_bool(draw)) + d.xml[j:]
    return True


def k_admin_request(d: _Doc, draw) -> bool:
    d.need_company()
    i = d.xml.find("<REQUEST ID=")
    if i < 0:
        return False
    j = _after_names(d.xml, i)
    d.xml = d.xml[:j] + _admin_data(True) + d.xml[j:]
    return True


def k_admin_service(d: _Doc, draw) -> bool:
    d.need_company()
    d.xml = _svc0_insert(d.xml, _admin_data(True))
    return True


def draw_bool(draw) -> bool:
    from hypothesis import strategies as st
    return draw(st.booleans())


def k_funct_class(d: _Doc, draw) -> bool:
    ad = _admin_data(False) if draw_bool(draw) else ""
    fc = (f'<FUNCT-CLASSS><FUNCT-CLASS ID="dx_fc" OID="{A}"><SHORT-NAME>dx_fc</SHORT-NAME><LONG-NAME>{T}</LONG-NAME>'
          f'{ad}</FUNCT-CLASS><FUNCT-CLASS ID="dx_fc2"><SHORT-NAME>dx_fc2</SHORT-NAME></FUNCT-CLASS></FUNCT-CLASSS>')
    d.xml = _before(d.xml, "<DIAG-DATA-DICTIONARY-SPEC>", fc)
    d.xml = _svc0_insert(d.xml, '<FUNCT-CLASS-REFS><FUNCT-CLASS-REF ID-REF="dx_fc"/><FUNCT-CLASS-REF ID-REF="dx_fc2"/>'
                                '</FUNCT-CLASS-REFS>')
    return True


def k_audience(d: _Doc, draw) -> bool:
    from hypothesis import strategies as st
    aa = (f'<ADDITIONAL-AUDIENCES><ADDITIONAL-AUDIENCE ID="dx_aa1" OID="{A}"><SHORT-NAME>dx_aa1</SHORT-NAME>'
          f'<LONG-NAME>{T}</LONG-NAME></ADDITIONAL-AUDIENCE><ADDITIONAL-AUDIENCE ID="dx_aa2"><SHORT-NAME>dx_aa2</SHORT-NAME>'
          f'</ADDITIONAL-AUDIENCE></ADDITIONAL-AUDIENCES>')
    d.xml = _before(d.xml, d.close, aa, last=True)
    flags = "".join(f' {n}="{draw(st.sampled_from(["true", "false"]))}"'
                    for n in ("IS-SUPPLIER", "IS-DEVELOPMENT", "IS-MANUFACTURING", "IS-AFTERSALES", "IS-AFTERMARKET")
                    if draw_bool(draw))
    which = draw(st.sampled_from(["ENABLED", "DISABLED"]))
    refs = (f'<{which}-AUDIENCE-REFS><{which}-AUDIENCE-REF ID-REF="dx_aa1"/><{which}-AUDIENCE-REF ID-REF="dx_aa2"/>'
            f'</{which}-AUDIENCE-REFS>')
    d.xml = _svc0_insert(d.xml, f'<AUDIENCE{flags}>{refs}</AUDIENCE>')
    return True


def k_state_chart(d: _Doc, draw) -> bool:
    eam = (f'<EXTERNAL-ACCESS-METHOD ID="dx_eam"><SHORT-NAME>dx_eam</SHORT-NAME><METHOD>{T}</METHOD>'
           f'</EXTERNAL-ACCESS-METHOD>') if draw_bool(draw) else ""
    from hypothesis import strategies as st
    sem = draw(st.sampled_from([T, "SESSION"]))      # a plain value keeps the rest of the chart observable
    sc = (f'<STATE-CHARTS><STATE-CHART ID="dx_sc" OID="{A}"><SHORT-NAME>dx_sc</SHORT-NAME><LONG-NAME>{T}</LONG-NAME>'
          f'<SEMANTIC>{sem}</SEMANTIC><STATE-TRANSITIONS><STATE-TRANSITION ID="dx_st1" OID="{A}"><SHORT-NAME>dx_st1</SHORT-NAME>'
          f'<LONG-NAME>{T}</LONG-NAME><SOURCE-SNREF SHORT-NAME="dx_s1"/><TARGET-SNREF SHORT-NAME="dx_s2"/>{eam}'
          f'</STATE-TRANSITION><STATE-TRANSITION ID="dx_st2"><SHORT-NAME>dx_st2</SHORT-NAME>'
          f'<SOURCE-SNREF SHORT-NAME="dx_s2"/><TARGET-SNREF SHORT-NAME="dx_s1"/></STATE-TRANSITION></STATE-TRANSITIONS>'
          f'<START-STATE-SNREF SHORT-NAME="dx_s1"/><STATES><STATE ID="dx_s1" OID="{A}"><SHORT-NAME>dx_s1</SHORT-NAME>'
          f'<LONG-NAME>{T}</LONG-NAME></STATE><STATE ID="dx_s2"><SHORT-NAME>dx_s2</SHORT-NAME></STATE></STATES>'
          f'</STATE-CHART></STATE-CHARTS>')
    d.xml = _before(d.xml, d.close, sc, last=True)
    d.xml = _svc0_insert(d.xml, '<PRE-CONDITION-STATE-REFS><PRE-CONDITION-STATE-REF ID-REF="dx_s1"/></PRE-CONDITION-STATE-REFS>'
                                '<STATE-TRANSITION-REFS><STATE-TRANSITION-REF ID-REF="dx_st1"/></STATE-TRANSITION-REFS>')
    return True


def _library_xml() -> str:
    return (f'<LIBRARYS><LIBRARY ID="dx_lib" OID="{A}"><SHORT-NAME>dx_lib</SHORT-NAME><LONG-NAME>{T}</LONG-NAME>'
            f'<CODE-FILE>c11lib.py</CODE-FILE><ENCRYPTION>{T}</ENCRYPTION><SYNTAX>{T}</SYNTAX><REVISION>{T}</REVISION>'
            f'<ENTRYPOINT>{T}</ENTRYPOINT></LIBRARY></LIBRARYS>')


def k_library(d: _Doc, draw) -> bool:
    if 'ID="dx_lib"' not in d.xml:
        d.xml = _before(d.xml, d.close, _library_xml(), last=True)
    return True


def k_single_ecu_job(d: _Doc, draw) -> bool:
    dop = d.need_dop()
    libref = ""
    if draw_bool(draw):
        k_library(d, draw)
        libref = '<LIBRARY-REFS><LIBRARY-REF ID-REF="dx_lib"/></LIBRARY-REFS>'
    enc = f"<ENCRYPTION>{T}</ENCRYPTION>" if draw_bool(draw) else ""
    ep = f"<ENTRYPOINT>{T}</ENTRYPOINT>" if draw_bool(draw) else ""
    job = (f'<SINGLE-ECU-JOB ID="dx_job" OID="{A}" SEMANTIC="{A}" IS-MANDATORY="true" IS-EXECUTABLE="false">'
           f'<SHORT-NAME>dx_job</SHORT-NAME><LONG-NAME>{T}</LONG-NAME><PROG-CODES><PROG-CODE><CODE-FILE>c11job.py</CODE-FILE>'
           f'{enc}<SYNTAX>{T}</SYNTAX><REVISION>{T}</REVISION>{ep}{libref}</PROG-CODE></PROG-CODES>'
           f'<INPUT-PARAMS><INPUT-PARAM OID="{A}" SEMANTIC="{A}"><SHORT-NAME>dx_in</SHORT-NAME><LONG-NAME>{T}</LONG-NAME>'
           f'<PHYSICAL-DEFAULT-VALUE>7</PHYSICAL-DEFAULT-VALUE><DOP-BASE-REF ID-REF="{dop}"/></INPUT-PARAM>'
           f'<INPUT-PARAM><SHORT-NAME>dx_in2</SHORT-NAME><DOP-BASE-REF ID-REF="{dop}"/></INPUT-PARAM></INPUT-PARAMS>'
           f'<OUTPUT-PARAMS><OUTPUT-PARAM ID="dx_out" OID="{A}" SEMANTIC="{A}"><SHORT-NAME>dx_out</SHORT-NAME>'
           f'<LONG-NAME>{T}</LONG-NAME><DOP-BASE-REF ID-REF="{dop}"/></OUTPUT-PARAM></OUTPUT-PARAMS>'
           f'<NEG-OUTPUT-PARAMS><NEG-OUTPUT-PARAM><SHORT-NAME>dx_neg</SHORT-NAME><LONG-NAME>{T}</LONG-NAME>'
           f'<DOP-BASE-REF ID-REF="{dop}"/></NEG-OUTPUT-PARAM></NEG-OUTPUT-PARAMS></SINGLE-ECU-JOB>')
    d.xml = _before(d.xml, "</DIAG-COMMS>", job)
    return True


def k_related_diag_comm(d: _Doc, draw) -> bool:
    other = d.need_service("dx_svc_rel")
    d.xml = _svc0_insert(d.xml, f'<RELATED-DIAG-COMM-REFS><RELATED-DIAG-COMM-REF ID-REF="{other}">'
                                f'<RELATION-TYPE>{T}</RELATION-TYPE></RELATED-DIAG-COMM-REF></RELATED-DIAG-COMM-REFS>')
    return True


def k_dyn_defined_spec(d: _Doc, draw) -> bool:
    if d.lt not in ("BASE-VARIANT", "ECU-VARIANT"):
        return False
    d.need_service("dx_clr", ' DIAGNOSTIC-CLASS="CLEAR-DYN-DEF-MESSAGE"')
    d.need_service("dx_rd", ' DIAGNOSTIC-CLASS="READ-DYN-DEFINED-MESSAGE"')
    d.need_service("dx_def", ' DIAGNOSTIC-CLASS="DYN-DEF-MESSAGE"')
    sel = ""
    t = d.first_table()
    if t and t[2]:
        sel = (f'<SELECTION-TABLE-REFS><SELECTION-TABLE-REF ID-REF="{t[0]}"/>'
               f'<SELECTION-TABLE-SNREF SHORT-NAME="{t[2]}"/></SELECTION-TABLE-REFS>')
    def msg(tag: str, name: str) -> str:
        if caps()["dyn-ref"] and draw_bool(draw):
            return f'<{tag}-REF ID-REF="{name}"/>'
        return f'<{tag}-SNREF SHORT-NAME="{name}"/>'
    dds = (f'<DYN-DEFINED-SPEC><DYN-ID-DEF-MODE-INFOS><DYN-ID-DEF-MODE-INFO><DEF-MODE>{T}</DEF-MODE>'
           + msg("CLEAR-DYN-DEF-MESSAGE", "dx_clr") + msg("READ-DYN-DEF-MESSAGE", "dx_rd")
           + msg("DYN-DEF-MESSAGE", "dx_def") + '<SUPPORTED-DYN-IDS><SUPPORTED-DYN-ID>F2</SUPPORTED-DYN-ID>'
           f'<SUPPORTED-DYN-ID>0a0b</SUPPORTED-DYN-ID></SUPPORTED-DYN-IDS>{sel}</DYN-ID-DEF-MODE-INFO>'
           '</DYN-ID-DEF-MODE-INFOS></DYN-DEFINED-SPEC>')
    d.xml = _before(d.xml, d.close, dds, last=True)
    return True


def k_diag_variable(d: _Doc, draw) -> bool:
    if d.lt not in ("BASE-VARIANT", "ECU-VARIANT", "FUNCTIONAL-GROUP", "ECU-SHARED-DATA"):
        return False
    d.need_company()
    t = d.first_table()
    tr = (f'<SNREF-TO-TABLEROW><TABLE-SNREF SHORT-NAME="{t[2]}"/><TABLE-ROW-SNREF SHORT-NAME="{t[1]}"/>'
          f'</SNREF-TO-TABLEROW>') if (t and t[1] and t[2] and draw_bool(draw)) else ""
    ad = _admin_data(True) if draw_bool(draw) else ""
    vgref = ""
    if caps()["variable-group-ref"] and draw_bool(draw):
        if k_variable_group(d, draw):
            d.feats.append("deco:variable-group")
        vgref = '<VARIABLE-GROUP-REF ID-REF="dx_vg"/>'
        d.feats.append("deco:variable-group-ref")
    dv = (f'<DIAG-VARIABLES><DIAG-VARIABLE ID="dx_dv" OID="{A}" IS-READ-BEFORE-WRITE="true"><SHORT-NAME>dx_dv</SHORT-NAME>'
          f'<LONG-NAME>{T}</LONG-NAME>{ad}{vgref}<SW-VARIABLES><SW-VARIABLE OID="{A}"><SHORT-NAME>dx_sw</SHORT-NAME>'
          f'<LONG-NAME>{T}</LONG-NAME><ORIGIN>{T}</ORIGIN></SW-VARIABLE></SW-VARIABLES><COMM-RELATIONS>'
          f'<COMM-RELATION VALUE-TYPE="CURRENT"><DESC><p>rel &amp; ation</p></DESC><RELATION-TYPE>{T}</RELATION-TYPE>'
          f'<DIAG-COMM-REF ID-REF="svc0"/></COMM-RELATION><COMM-RELATION><RELATION-TYPE>READ</RELATION-TYPE>'
          f'<DIAG-COMM-SNREF SHORT-NAME="svc0"/></COMM-RELATION></COMM-RELATIONS>{tr}</DIAG-VARIABLE>'
          f'<DIAG-VARIABLE ID="dx_dv2"><SHORT-NAME>dx_dv2</SHORT-NAME></DIAG-VARIABLE></DIAG-VARIABLES>')
    d.xml = _before(d.xml, d.close, dv, last=True)
    return True


def k_variable_group(d: _Doc, draw) -> bool:
    if d.lt not in ("BASE-VARIANT", "ECU-VARIANT", "FUNCTIONAL-GROUP", "ECU-SHARED-DATA"):
        return False
    if not caps()["variable-group"] or 'ID="dx_vg"' in d.xml:
        return False
    vg = (f'<VARIABLE-GROUPS><VARIABLE-GROUP ID="dx_vg"><SHORT-NAME>dx_vg</SHORT-NAME><LONG-NAME>{T}</LONG-NAME>'
          f'</VARIABLE-GROUP></VARIABLE-GROUPS>')
    d.xml = _before(d.xml, d.close, vg, last=True)
    return True


def k_table_dcc(d: _Doc, draw) -> bool:
    t = d.first_table()
    if not t:
        return False
    i = d.xml.find(f'<TABLE ID="{t[0]}"')
    j = d.xml.find("</TABLE>", i)
    dcc = (f'<TABLE-DIAG-COMM-CONNECTORS><TABLE-DIAG-COMM-CONNECTOR><SEMANTIC>{T}</SEMANTIC>'
           f'<DIAG-COMM-REF ID-REF="svc0"/></TABLE-DIAG-COMM-CONNECTOR><TABLE-DIAG-COMM-CONNECTOR><SEMANTIC>second</SEMANTIC>'
           f'<DIAG-COMM-SNREF SHORT-NAME="svc0"/></TABLE-DIAG-COMM-CONNECTOR></TABLE-DIAG-COMM-CONNECTORS>')
    d.xml = d.xml[:j] + dcc + d.xml[j:]
    return True


def k_sub_component(d: _Doc, draw) -> bool:
    parts = ""
    t = d.first_table()
    if t and t[1]:
        parts += (f'<TABLE-ROW-CONNECTORS><TABLE-ROW-CONNECTOR><SHORT-NAME>dx_trc</SHORT-NAME><LONG-NAME>{T}</LONG-NAME>'
                  f'<TABLE-REF ID-REF="{t[0]}"/><TABLE-ROW-SNREF SHORT-NAME="{t[1]}"/></TABLE-ROW-CONNECTOR>'
                  f'</TABLE-ROW-CONNECTORS>')
    dd = d.first_dtc_dop()
    if dd and dd[1]:
        parts += (f'<DTC-CONNECTORS><DTC-CONNECTOR><SHORT-NAME>dx_dtcc</SHORT-NAME><LONG-NAME>{T}</LONG-NAME>'
                  f'<DTC-DOP-REF ID-REF="{dd[0]}"/><DTC-SNREF SHORT-NAME="{dd[1][0][1]}"/></DTC-CONNECTOR></DTC-CONNECTORS>')
    m = re.search(r'<ENV-DATA-DESC ID="([^"]+)".*?<ENV-DATA-REF ID-REF="([^"]+)"', d.xml, re.S)
    if m:
        n = re.search(r'<ENV-DATA ID="' + re.escape(m.group(2)) + r'"[^>]*><SHORT-NAME>([^<]+)</SHORT-NAME>', d.xml)
        if n:
            parts += (f'<ENV-DATA-CONNECTORS><ENV-DATA-CONNECTOR><SHORT-NAME>dx_edc</SHORT-NAME><LONG-NAME>{T}</LONG-NAME>'
                      f'<ENV-DATA-DESC-REF ID-REF="{m.group(1)}"/><ENV-DATA-SNREF SHORT-NAME="{n.group(1)}"/>'
                      f'</ENV-DATA-CONNECTOR></ENV-DATA-CONNECTORS>')
    sc = (f'<SUB-COMPONENTS><SUB-COMPONENT ID="dx_sub" OID="{A}" SEMANTIC="{A}"><SHORT-NAME>dx_sub</SHORT-NAME>'
          f'<LONG-NAME>{T}</LONG-NAME>{parts}</SUB-COMPONENT></SUB-COMPONENTS>')
    d.xml = _before(d.xml, d.close, sc, last=True)
    if "TABLE-ROW-CONNECTORS" in parts:
        d.feats.append("deco:sub-component:table-row-connector")
    if "ENV-DATA-CONNECTORS" in parts:
        d.feats.append("deco:sub-component:env-data-connector")
    if "DTC-CONNECTORS" in parts:
        d.feats.append("deco:sub-component:dtc-connector")
    return True


def k_unit_spec(d: _Doc, draw) -> bool:
    if "<UNIT-SPEC>" in d.xml:
        return False
    us = (f'<UNIT-SPEC><UNIT-GROUPS><UNIT-GROUP OID="{A}"><SHORT-NAME>dx_ug</SHORT-NAME><LONG-NAME>{T}</LONG-NAME>'
          f'<CATEGORY>COUNTRY</CATEGORY><UNIT-REFS><UNIT-REF ID-REF="dx_u"/><UNIT-REF ID-REF="dx_u2"/></UNIT-REFS>'
          f'</UNIT-GROUP><UNIT-GROUP><SHORT-NAME>dx_ug2</SHORT-NAME><CATEGORY>EQUIV-UNITS</CATEGORY></UNIT-GROUP></UNIT-GROUPS>'
          f'<UNITS><UNIT ID="dx_u" OID="{A}"><SHORT-NAME>dx_u</SHORT-NAME><LONG-NAME>{T}</LONG-NAME>'
          f'<DISPLAY-NAME>{T}</DISPLAY-NAME><FACTOR-SI-TO-UNIT>2.5</FACTOR-SI-TO-UNIT><OFFSET-SI-TO-UNIT>-1.5</OFFSET-SI-TO-UNIT>'
          f'<PHYSICAL-DIMENSION-REF ID-REF="dx_pd"/></UNIT><UNIT ID="dx_u2"><SHORT-NAME>dx_u2</SHORT-NAME>'
          f'<DISPLAY-NAME>u2</DISPLAY-NAME></UNIT></UNITS><PHYSICAL-DIMENSIONS><PHYSICAL-DIMENSION ID="dx_pd" OID="{A}">'
          f'<SHORT-NAME>dx_pd</SHORT-NAME><LONG-NAME>{T}</LONG-NAME><LENGTH-EXP>1</LENGTH-EXP><MASS-EXP>2</MASS-EXP>'
          f'<TIME-EXP>-1</TIME-EXP><CURRENT-EXP>3</CURRENT-EXP><TEMPERATURE-EXP>-2</TEMPERATURE-EXP>'
          f'<MOLAR-AMOUNT-EXP>4</MOLAR-AMOUNT-EXP><LUMINOUS-INTENSITY-EXP>5</LUMINOUS-INTENSITY-EXP></PHYSICAL-DIMENSION>'
          f'</PHYSICAL-DIMENSIONS></UNIT-SPEC>')
    d.xml = _before(d.xml, "</DIAG-DATA-DICTIONARY-SPEC>", us, last=True)
    i = d.xml.find("<DATA-OBJECT-PROP ID=")
    if i < 0:
        d.need_dop()
        i = d.xml.find("<DATA-OBJECT-PROP ID=")
    j = d.xml.find("</DATA-OBJECT-PROP>", i)
    d.xml = d.xml[:j] + '<UNIT-REF ID-REF="dx_u"/>' + d.xml[j:]
    return True


def k_constr(d: _Doc, draw) -> bool:
    """INTERNAL-CONSTR / PHYS-CONSTR with SCALE-CONSTRS on the first DOP whose types are all integers"""
    from hypothesis import strategies as st
    pos = 0
    while True:
        i = d.xml.find("<DATA-OBJECT-PROP ID=", pos)
        if i < 0:
            d.need_dop()
            i = d.xml.find('<DATA-OBJECT-PROP ID="dx_dop"')
            j = d.xml.find("</DATA-OBJECT-PROP>", i)
            break
        j = d.xml.find("</DATA-OBJECT-PROP>", i)
        region = d.xml[i:j]
        types = set(re.findall(r'BASE-DATA-TYPE="([^"]+)"', region))
        if types <= {"A_UINT32", "A_INT32"} and "INTERNAL-CONSTR" not in region and "<UNIT-REF" not in region:
            break
        pos = j + 1

    def constr(tag: str) -> str:
        it = draw(st.sampled_from(["", ' INTERVAL-TYPE="CLOSED"', ' INTERVAL-TYPE="OPEN"']))
        return (f'<{tag}><LOWER-LIMIT{it}>0</LOWER-LIMIT><UPPER-LIMIT>2000000000</UPPER-LIMIT><SCALE-CONSTRS>'
                f'<SCALE-CONSTR VALIDITY="NOT-VALID"><SHORT-LABEL>{T}</SHORT-LABEL><DESC><p>sc &amp; c</p></DESC>'
                f'<LOWER-LIMIT>1999999990</LOWER-LIMIT><UPPER-LIMIT INTERVAL-TYPE="OPEN">1999999999</UPPER-LIMIT></SCALE-CONSTR>'
                f'<SCALE-CONSTR VALIDITY="NOT-DEFINED"><LOWER-LIMIT>1999999999</LOWER-LIMIT>'
                f'<UPPER-LIMIT INTERVAL-TYPE="INFINITE"/></SCALE-CONSTR></SCALE-CONSTRS></{tag}>')
    which = draw(st.sampled_from(["both", "internal", "phys"]))
    txt = (constr("INTERNAL-CONSTR") if which != "phys" else "") + (constr("PHYS-CONSTR") if which != "internal" else "")
    d.xml = d.xml[:j] + txt + d.xml[j:]
    if which != "internal":
        d.feats.append("deco:constr:phys")
    return True


def k_linked_dtc_dop(d: _Doc, draw) -> bool:
    dd = d.first_dtc_dop()
    if not dd or not dd[1]:
        return False
    dop_id, dtcs = dd
    ni = (f'<NOT-INHERITED-DTC-SNREFS><NOT-INHERITED-DTC-SNREF SHORT-NAME="{dtcs[-1][1]}"/></NOT-INHERITED-DTC-SNREFS>'
          if len(dtcs) > 1 else "")
    x = (f'<DTC-DOP ID="dx_dtcdop" OID="{A}" IS-VISIBLE="true"><SHORT-NAME>dx_dtcdop</SHORT-NAME><LONG-NAME>{T}</LONG-NAME>'
         f'<DIAG-CODED-TYPE BASE-DATA-TYPE="A_UINT32" xsi:type="STANDARD-LENGTH-TYPE"><BIT-LENGTH>24</BIT-LENGTH></DIAG-CODED-TYPE>'
         f'<PHYSICAL-TYPE BASE-DATA-TYPE="A_UINT32"/><COMPU-METHOD><CATEGORY>IDENTICAL</CATEGORY></COMPU-METHOD>'
         f'<DTCS><DTC ID="dx_dtc1" OID="{A}"><SHORT-NAME>dx_dtc1</SHORT-NAME><TROUBLE-CODE>16777000</TROUBLE-CODE>'
         f'<DISPLAY-TROUBLE-CODE>{T}</DISPLAY-TROUBLE-CODE><TEXT>{T}</TEXT><LEVEL>2</LEVEL></DTC>'
         f'<DTC-REF ID-REF="{dtcs[0][0]}"/></DTCS><LINKED-DTC-DOPS><LINKED-DTC-DOP>{ni}'
         f'<DTC-DOP-REF ID-REF="{dop_id}"/></LINKED-DTC-DOP></LINKED-DTC-DOPS></DTC-DOP>')
    d.xml = _before(d.xml, "</DTC-DOPS>", x)
    return True


def k_empty_long_name(d: _Doc, draw) -> bool:
    i = d.xml.find('<DIAG-SERVICE ID="svc0"')
    m = re.compile(r"<LONG-NAME>[^<]*</LONG-NAME>").search(d.xml, i)
    if i < 0 or not m or m.start() > d.xml.find("<REQUEST-REF", i):
        return False
    d.xml = d.xml[:m.start()] + "<LONG-NAME/>" + d.xml[m.end():]
    return True


# order matters: insertions in front of svc0's REQUEST-REF must come out in a fixed order
_TABLE: List[Tuple[str, Callable, bool]] = [
    ("empty-long-name", k_empty_long_name, False),
    ("company-datas", k_company_datas, False),
    ("admin-data:layer", k_admin_layer, False),
    ("admin-data:dop", k_admin_dop, False),
    ("admin-data:request", k_admin_request, False),
    ("constr", k_constr, False),
    ("unit-spec", k_unit_spec, False),
    ("linked-dtc-dop", k_linked_dtc_dop, True),
    ("table-diag-comm-connector", k_table_dcc, True),
    ("funct-class", k_funct_class, False),
    ("state-chart", k_state_chart, False),
    ("audience", k_audience, False),
    ("related-diag-comm", k_related_diag_comm, False),
    ("admin-data:service", k_admin_service, False),
    ("single-ecu-job", k_single_ecu_job, False),
    ("library", k_library, False),
    ("dyn-defined-spec", k_dyn_defined_spec, False),
    ("diag-variable", k_diag_variable, False),
    ("variable-group", k_variable_group, False),
    ("sub-component", k_sub_component, False),
]


def decorate_more(draw, xml: str, only: Optional[List[str]] = None) -> Tuple[str, List[str]]:
    """-> (xml, features).  `only`: force exactly these kinds (tests / corpus construction)."""
    from hypothesis import strategies as st
    d = _Doc(xml)
    if d.lt is None or '<DIAG-SERVICE ID="svc0"' not in xml:
        return xml, []
    for name, fn, cond in _TABLE:
        if only is not None:
            take = name in only
        else:
            take = draw(st.integers(0, 99)) < (P_COND if cond else P)
        if take and fn(d, draw):
            d.feats.append("deco:" + name)
    return d.xml, d.feats


def add_aux_files(db) -> None:
    """the code files named by the PROG-CODE / LIBRARY snippets"""
    import io
    for n, data in AUX_FILES.items():
        db.add_auxiliary_file(n, io.BytesIO(data))
