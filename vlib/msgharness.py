"""Shared harness for the message-level checks (C01, C02, C03, C04, C05, C08, C17):
loads a generated description into odxtools, drives encode / decode, and compares values with
the reference expectation (DESIGN 2.5)."""
from __future__ import annotations

import math
import struct
import warnings
from typing import Any, Optional

from vlib import core, emit, refcodec

CASE_FEATURES_BUCKET = ("BYTE-SIZE", "mux", "dlfield", "sfield", "eopf", "emfield", "bitmask", "dct:leading",
                        "dct:minmax", "dct:paramlen", "table", "envdata", "dtc", "pk:matchreq", "nrc")


def to_odx_value(v: Any) -> Any:
    """IR value (JSON-like: lists for tuples) -> what a user passes to odxtools"""
    if isinstance(v, dict):
        if set(v) == {"__bytes__"}:
            return bytes.fromhex(v["__bytes__"])
        return {k: to_odx_value(x) for k, x in v.items()}
    if isinstance(v, (list, tuple)):
        if len(v) == 2 and isinstance(v[0], (str, int)) and not isinstance(v[0], bool) and isinstance(v[1], dict) \
                and not (isinstance(v[0], dict)):
            # (case/row name, content) pair of a mux / table struct
            return (v[0], to_odx_value(v[1]))
        return [to_odx_value(x) for x in v]
    return v


def norm_case(case: dict) -> dict:
    """case as read from JSON -> in-memory form (bytes objects)"""
    return core.unjson(case)


class Loaded:
    def __init__(self, case: dict):
        self.case = case
        self.msg = case["msg"]
        self.db, self.layer, objs = emit.load_messages([self.msg])
        self.obj = objs[0]

    def encode(self, values: Optional[dict] = None, request: Optional[bytes] = None) -> bytes:
        vals = to_odx_value(self.case["values"] if values is None else values)
        if self.msg["kind"] == "request":
            return bytes(self.obj.encode(**vals))
        rq = self.case.get("request") if request is None else request
        return bytes(self.obj.encode(coded_request=rq, **vals))

    def decode(self, pdu: bytes):
        return self.obj.decode(pdu)


def float_eq(a: float, b: float, bt: Optional[str]) -> bool:
    if isinstance(a, bool) or isinstance(b, bool):
        return False
    if not isinstance(a, (int, float)) or not isinstance(b, (int, float)):
        return False
    if a == b:
        return True
    if math.isnan(a) and math.isnan(b):
        return True
    try:
        fa = struct.unpack(">f", struct.pack(">f", a))[0]
        fb = struct.unpack(">f", struct.pack(">f", b))[0]
    except (OverflowError, struct.error):
        return False
    return bt == "A_FLOAT32" and fa == fb


def same_value(exp: Any, got: Any, path: str = "") -> Optional[str]:
    """None if the decoded value `got` is equivalent to the reference expectation `exp`, else a
    description of the first difference"""
    if isinstance(exp, dict):
        if "__dtc__" in exp:
            code = getattr(got, "trouble_code", got)
            return None if code == exp["__dtc__"] else f"{path}: DTC {code!r} != {exp['__dtc__']!r}"
        if "__reserved__" in exp:
            return None if got in (0, None) else f"{path}: reserved bits decoded as {got!r}"
        if "__reqbytes__" in exp:
            b = exp["__reqbytes__"]
            ok = got == b or got == int.from_bytes(b, "little") or got == int.from_bytes(b, "big") \
                or (isinstance(got, (bytes, bytearray)) and bytes(got) == b)
            return None if ok else f"{path}: request echo {got!r} != {b.hex()}"
        if "__mux__" in exp:
            name, content = exp["__mux__"]
            if not isinstance(got, (tuple, list)) or len(got) != 2:
                return f"{path}: mux value {got!r}"
            if got[0] != name:
                return f"{path}: mux case {got[0]!r} != {name!r}"
            return same_value(content, got[1], path + ":" + str(name))
        if "__tstruct__" in exp:
            name, content = exp["__tstruct__"]
            if not isinstance(got, (tuple, list)) or len(got) != 2:
                return f"{path}: table struct value {got!r}"
            if got[0] != name:
                return f"{path}: table row {got[0]!r} != {name!r}"
            return same_value(content, got[1], path + ":" + str(name))
        if not isinstance(got, dict):
            return f"{path}: expected dict, got {type(got).__name__}"
        for k, v in exp.items():
            if k not in got:
                return f"{path}.{k}: missing from the decoded values"
            d = same_value(v, got[k], f"{path}.{k}")
            if d:
                return d
        extra = [k for k in got if k not in exp]
        if extra:
            return f"{path}: unexpected decoded parameters {extra}"
        return None
    if isinstance(exp, (list, tuple)):
        if not isinstance(got, (list, tuple)) or len(got) != len(exp):
            return f"{path}: list of {len(exp)} expected, got {got!r}"
        for i, (a, b) in enumerate(zip(exp, got)):
            d = same_value(a, b, f"{path}[{i}]")
            if d:
                return d
        return None
    if isinstance(exp, (bytes, bytearray)):
        if isinstance(got, (bytes, bytearray)) and bytes(got) == bytes(exp):
            return None
        return f"{path}: bytes {got!r} != {bytes(exp).hex()}"
    if isinstance(exp, float) or isinstance(got, float):
        return None if float_eq(exp, got, "A_FLOAT32") else f"{path}: {got!r} != {exp!r}"
    if isinstance(exp, bool) or isinstance(got, bool):
        return None if exp is got else f"{path}: {got!r} != {exp!r}"
    if exp is None:
        return None if got is None else f"{path}: {got!r} != None"
    return None if (type(exp) is type(got) and exp == got) else f"{path}: {got!r} != {exp!r}"


def feature_bucket(case: dict) -> str:
    fs = [f for f in case.get("features", []) if f in CASE_FEATURES_BUCKET]
    return ",".join(fs)


def exc_key(e: BaseException) -> str:
    import traceback
    tb = traceback.extract_tb(e.__traceback__)
    frame = ""
    for fr in reversed(tb):
        if "odxtools" in fr.filename:
            frame = f"{fr.filename.split('odxtools/')[-1]}:{fr.name}"
            break
    return f"{type(e).__name__}@{frame}"


class quiet_warnings:
    def __enter__(self):
        self.cm = warnings.catch_warnings(record=True)
        self.w = self.cm.__enter__()
        warnings.simplefilter("always")
        return self.w

    def __exit__(self, *a):
        return self.cm.__exit__(*a)
