"""IR (see vlib/refcodec.py) -> ODX 2.2 XML -> odxtools Database loaded through the public path.

Independent of odxtools/templates (C11 tests those)."""
from __future__ import annotations

import io
from xml.sax.saxutils import escape, quoteattr

XSI = 'xmlns:xsi="http://www.w3.org/2001/XMLSchema-instance"'


def _b(v: bool) -> str:
    return "true" if v else "false"


def _val_str(bt: str, v) -> str:
    if bt == "A_BYTEFIELD":
        return bytes(v).hex()
    if bt in ("A_FLOAT32", "A_FLOAT64"):
        return repr(float(v))
    return escape(str(v))


def dct_xml(d, tag="DIAG-CODED-TYPE") -> str:
    a = f' BASE-DATA-TYPE="{d["bt"]}"'
    if d.get("enc"):
        a += f' BASE-TYPE-ENCODING="{d["enc"]}"'
    if d.get("hl") is not None:
        a += f' IS-HIGHLOW-BYTE-ORDER="{_b(d["hl"])}"'
    t = d["t"]
    if t == "std":
        if d.get("cond"):
            a += ' IS-CONDENSED="true"'
        m = f'<BIT-MASK>{d["mask"]:X}</BIT-MASK>' if d.get("mask") is not None else ""
        return f'<{tag}{a} xsi:type="STANDARD-LENGTH-TYPE"><BIT-LENGTH>{d["bl"]}</BIT-LENGTH>{m}</{tag}>'
    if t == "minmax":
        mx = f'<MAX-LENGTH>{d["max"]}</MAX-LENGTH>' if d.get("max") is not None else ""
        return (f'<{tag}{a} TERMINATION="{d["term"]}" xsi:type="MIN-MAX-LENGTH-TYPE">'
                f'<MIN-LENGTH>{d["min"]}</MIN-LENGTH>{mx}</{tag}>')
    if t == "leading":
        return f'<{tag}{a} xsi:type="LEADING-LENGTH-INFO-TYPE"><BIT-LENGTH>{d["bl"]}</BIT-LENGTH></{tag}>'
    if t == "paramlen":
        return f'<{tag}{a} xsi:type="PARAM-LENGTH-INFO-TYPE"><LENGTH-KEY-REF ID-REF="{d["keyid"]}"/></{tag}>'
    raise ValueError(t)


def compu_xml(c, it: str, pt: str) -> str:
    k = c["c"]
    if k == "IDENTICAL":
        return "<COMPU-METHOD><CATEGORY>IDENTICAL</CATEGORY></COMPU-METHOD>"
    if k == "LINEAR":
        lim = ""
        if c.get("lo") is not None:
            lim += f'<LOWER-LIMIT>{c["lo"]}</LOWER-LIMIT>'
        if c.get("hi") is not None:
            lim += f'<UPPER-LIMIT>{c["hi"]}</UPPER-LIMIT>'
        return ("<COMPU-METHOD><CATEGORY>LINEAR</CATEGORY><COMPU-INTERNAL-TO-PHYS><COMPU-SCALES><COMPU-SCALE>"
                f"{lim}<COMPU-RATIONAL-COEFFS><COMPU-NUMERATOR><V>{c['n0']}</V><V>{c['n1']}</V></COMPU-NUMERATOR>"
                f"<COMPU-DENOMINATOR><V>{c['d']}</V></COMPU-DENOMINATOR></COMPU-RATIONAL-COEFFS>"
                "</COMPU-SCALE></COMPU-SCALES></COMPU-INTERNAL-TO-PHYS></COMPU-METHOD>")
    if k == "TEXTTABLE":
        sc = ""
        for lo, hi, text in c["rows"]:
            up = f"<UPPER-LIMIT>{hi}</UPPER-LIMIT>" if hi != lo or c.get("always_upper") else ""
            sc += (f"<COMPU-SCALE><LOWER-LIMIT>{lo}</LOWER-LIMIT>{up}"
                   f"<COMPU-CONST><VT>{escape(text)}</VT></COMPU-CONST></COMPU-SCALE>")
        dv = f"<COMPU-DEFAULT-VALUE><VT>{escape(c['default'])}</VT></COMPU-DEFAULT-VALUE>" if c.get("default") is not None else ""
        return ("<COMPU-METHOD><CATEGORY>TEXTTABLE</CATEGORY><COMPU-INTERNAL-TO-PHYS><COMPU-SCALES>"
                f"{sc}</COMPU-SCALES>{dv}</COMPU-INTERNAL-TO-PHYS></COMPU-METHOD>")
    raise ValueError(k)


class Collector:
    """walks a message IR and gathers the DOP definitions by section"""

    def __init__(self):
        self.sections: dict[str, list[str]] = {}
        self.seen: set = set()
        self.n = 0

    def uid(self) -> str:
        self.n += 1
        return f"uid:{self.n}"

    def add(self, section: str, ident: str, xml: str) -> None:
        self.sections.setdefault(section, []).append(xml)

    def dop(self, d) -> None:
        if d["id"] in self.seen:
            return
        self.seen.add(d["id"])
        k = d["k"]
        head = f'ID="{d["id"]}"><SHORT-NAME>{d["id"]}</SHORT-NAME><LONG-NAME>{self.uid()}</LONG-NAME>'
        if k == "simple":
            # PRECISION and DISPLAY-RADIX are display hints of the physical type
            ptype = f'<PHYSICAL-TYPE BASE-DATA-TYPE="{d["pt"]}"/>'
            if d.get("precision") is not None:
                ptype = f'<PHYSICAL-TYPE BASE-DATA-TYPE="{d["pt"]}"><PRECISION>{d["precision"]}</PRECISION></PHYSICAL-TYPE>'
            elif d.get("radix") is not None:
                ptype = f'<PHYSICAL-TYPE BASE-DATA-TYPE="{d["pt"]}" DISPLAY-RADIX="{d["radix"]}"/>'
            self.add("DATA-OBJECT-PROPS", d["id"],
                     f'<DATA-OBJECT-PROP {head}{compu_xml(d["compu"], d["dct"]["bt"], d["pt"])}'
                     f'{dct_xml(d["dct"])}{ptype}</DATA-OBJECT-PROP>')
        elif k == "dtc":
            def dtcs_xml(oid, dtcs):
                return "".join(f'<DTC ID="{oid}.{n}"><SHORT-NAME>{n}</SHORT-NAME><TROUBLE-CODE>{c}</TROUBLE-CODE>'
                               f'<TEXT>{n}</TEXT></DTC>' for n, c in dtcs)
            ln = d.get("linked")
            own = d["dtcs"] if ln is None else [x for x in d["dtcs"] if x[0] in ln["own"]]
            lx = ""
            if ln is not None:
                # d["dtcs"] is the effective list: the own DTCs plus those inherited from the linked DTC-DOP
                inh = [x for x in d["dtcs"] if x[0] not in ln["own"]]
                ni = "".join(f'<NOT-INHERITED-DTC-SNREF SHORT-NAME="{n}"/>' for n, _ in ln["hidden"])
                ni = f"<NOT-INHERITED-DTC-SNREFS>{ni}</NOT-INHERITED-DTC-SNREFS>" if ni else ""
                lx = (f'<LINKED-DTC-DOPS><LINKED-DTC-DOP>{ni}<DTC-DOP-REF ID-REF="{ln["id"]}"/></LINKED-DTC-DOP>'
                      f'</LINKED-DTC-DOPS>')
                lhead = f'ID="{ln["id"]}"><SHORT-NAME>{ln["id"]}</SHORT-NAME>'
                self.add("DTC-DOPS", ln["id"],
                         f'<DTC-DOP {lhead}{dct_xml(d["dct"])}<PHYSICAL-TYPE BASE-DATA-TYPE="A_UINT32"/>'
                         f'<COMPU-METHOD><CATEGORY>IDENTICAL</CATEGORY></COMPU-METHOD>'
                         f'<DTCS>{dtcs_xml(ln["id"], ln["hidden"] + inh + ln["clash"])}</DTCS></DTC-DOP>')
            self.add("DTC-DOPS", d["id"],
                     f'<DTC-DOP {head}{dct_xml(d["dct"])}<PHYSICAL-TYPE BASE-DATA-TYPE="A_UINT32"/>'
                     f'<COMPU-METHOD><CATEGORY>IDENTICAL</CATEGORY></COMPU-METHOD><DTCS>{dtcs_xml(d["id"], own)}</DTCS>'
                     f'{lx}</DTC-DOP>')
        elif k == "struct":
            bs = f'<BYTE-SIZE>{d["bs"]}</BYTE-SIZE>' if d.get("bs") is not None else ""
            px = self.params(d["params"])
            self.add("STRUCTURES", d["id"], f'<STRUCTURE {head}{bs}<PARAMS>{px}</PARAMS></STRUCTURE>')
        elif k == "sfield":
            self.dop(d["st"])
            self.add("STATIC-FIELDS", d["id"],
                     f'<STATIC-FIELD {head}<BASIC-STRUCTURE-REF ID-REF="{d["st"]["id"]}"/>'
                     f'<FIXED-NUMBER-OF-ITEMS>{d["n"]}</FIXED-NUMBER-OF-ITEMS>'
                     f'<ITEM-BYTE-SIZE>{d["isz"]}</ITEM-BYTE-SIZE></STATIC-FIELD>')
        elif k == "dlfield":
            self.dop(d["st"])
            self.dop(d["cnt"]["dop"])
            bit = f'<BIT-POSITION>{d["cnt"]["bit"]}</BIT-POSITION>' if d["cnt"].get("bit") else ""
            self.add("DYNAMIC-LENGTH-FIELDS", d["id"],
                     f'<DYNAMIC-LENGTH-FIELD {head}<BASIC-STRUCTURE-REF ID-REF="{d["st"]["id"]}"/>'
                     f'<OFFSET>{d["off"]}</OFFSET><DETERMINE-NUMBER-OF-ITEMS><BYTE-POSITION>{d["cnt"]["bp"]}'
                     f'</BYTE-POSITION>{bit}<DATA-OBJECT-PROP-REF ID-REF="{d["cnt"]["dop"]["id"]}"/>'
                     f'</DETERMINE-NUMBER-OF-ITEMS></DYNAMIC-LENGTH-FIELD>')
        elif k == "emfield":
            self.dop(d["st"])
            self.dop(d["tdop"])
            self.add("DYNAMIC-ENDMARKER-FIELDS", d["id"],
                     f'<DYNAMIC-ENDMARKER-FIELD {head}<BASIC-STRUCTURE-REF ID-REF="{d["st"]["id"]}"/>'
                     f'<DYN-END-DOP-REF ID-REF="{d["tdop"]["id"]}"><TERMINATION-VALUE>{d["tv"]}'
                     f'</TERMINATION-VALUE></DYN-END-DOP-REF></DYNAMIC-ENDMARKER-FIELD>')
        elif k == "eopf":
            self.dop(d["st"])
            mm = ""
            if d.get("max") is not None:
                mm += f'<MAX-NUMBER-OF-ITEMS>{d["max"]}</MAX-NUMBER-OF-ITEMS>'
            if d.get("min") is not None:
                mm += f'<MIN-NUMBER-OF-ITEMS>{d["min"]}</MIN-NUMBER-OF-ITEMS>'
            self.add("END-OF-PDU-FIELDS", d["id"],
                     f'<END-OF-PDU-FIELD {head}<BASIC-STRUCTURE-REF ID-REF="{d["st"]["id"]}"/>{mm}</END-OF-PDU-FIELD>')
        elif k == "mux":
            self.dop(d["key"]["dop"])
            cx = ""
            for c in d["cases"]:
                sr = ""
                if c.get("st") is not None:
                    self.dop(c["st"])
                    sr = f'<STRUCTURE-REF ID-REF="{c["st"]["id"]}"/>'
                    if c.get("snref"):
                        sr = f'<STRUCTURE-SNREF SHORT-NAME="{c["st"]["id"]}"/>'
                # "lo"/"hi" is the closed range of keys that select the case; it may be described by OPEN limits
                lot = {None: "", "CLOSED": ' INTERVAL-TYPE="CLOSED"', "OPEN": ' INTERVAL-TYPE="OPEN"'}[c.get("lo_t")]
                hit = {None: "", "CLOSED": ' INTERVAL-TYPE="CLOSED"', "OPEN": ' INTERVAL-TYPE="OPEN"'}[c.get("hi_t")]
                lov = c["lo"] - 1 if c.get("lo_t") == "OPEN" else c["lo"]
                hiv = c["hi"] + 1 if c.get("hi_t") == "OPEN" else c["hi"]
                cx += (f'<CASE><SHORT-NAME>{c["name"]}</SHORT-NAME>{sr}<LOWER-LIMIT{lot}>{lov}</LOWER-LIMIT>'
                       f'<UPPER-LIMIT{hit}>{hiv}</UPPER-LIMIT></CASE>')
            dx = ""
            if d.get("default"):
                sr = ""
                if d["default"].get("st") is not None:
                    self.dop(d["default"]["st"])
                    sr = f'<STRUCTURE-REF ID-REF="{d["default"]["st"]["id"]}"/>'
                dx = f'<DEFAULT-CASE><SHORT-NAME>{d["default"]["name"]}</SHORT-NAME>{sr}</DEFAULT-CASE>'
            bit = f'<BIT-POSITION>{d["key"]["bit"]}</BIT-POSITION>' if d["key"].get("bit") else ""
            self.add("MUXS", d["id"],
                     f'<MUX {head}<BYTE-POSITION>{d["bp"]}</BYTE-POSITION><SWITCH-KEY><BYTE-POSITION>'
                     f'{d["key"]["bp"]}</BYTE-POSITION>{bit}<DATA-OBJECT-PROP-REF ID-REF="{d["key"]["dop"]["id"]}"/>'
                     f'</SWITCH-KEY>{dx}<CASES>{cx}</CASES></MUX>')
        elif k == "table":
            self.dop(d["keydop"])
            rx = ""
            for r in d["rows"]:
                ref = ""
                if r.get("st") is not None:
                    self.dop(r["st"])
                    ref = f'<STRUCTURE-REF ID-REF="{r["st"]["id"]}"/>'
                elif r.get("dop") is not None:
                    self.dop(r["dop"])
                    ref = f'<DATA-OBJECT-PROP-REF ID-REF="{r["dop"]["id"]}"/>'
                rx += (f'<TABLE-ROW ID="{r["id"]}"><SHORT-NAME>{r["name"]}</SHORT-NAME><LONG-NAME>{self.uid()}'
                       f'</LONG-NAME><KEY>{_val_str(d["keydop"]["pt"], r["key"])}</KEY>{ref}</TABLE-ROW>')
            self.add("TABLES", d["id"],
                     f'<TABLE {head}<KEY-DOP-REF ID-REF="{d["keydop"]["id"]}"/>{rx}</TABLE>')
        elif k == "envdesc":
            refs = ""
            for e in d["envs"]:
                allv = "<ALL-VALUE/>" if e.get("all") else ""
                dv = "".join(f"<DTC-VALUE>{c}</DTC-VALUE>" for c in e.get("dtcs", []))
                dv = f"<DTC-VALUES>{dv}</DTC-VALUES>" if dv else ""
                px = self.params(e["params"])
                self.add("ENV-DATAS", e["id"],
                         f'<ENV-DATA ID="{e["id"]}"><SHORT-NAME>{e["name"]}</SHORT-NAME><LONG-NAME>{self.uid()}'
                         f'</LONG-NAME><PARAMS>{px}</PARAMS>{allv}{dv}</ENV-DATA>')
                refs += f'<ENV-DATA-REF ID-REF="{e["id"]}"/>'
            self.add("ENV-DATA-DESCS", d["id"],
                     f'<ENV-DATA-DESC {head}<PARAM-SNREF SHORT-NAME="{d["param"]}"/>'
                     f'<ENV-DATA-REFS>{refs}</ENV-DATA-REFS></ENV-DATA-DESC>')
        else:
            raise ValueError(k)

    def params(self, params) -> str:
        out = []
        keyids = {p["name"]: p["id"] for p in params if p["pk"] in ("lenkey", "tablekey")}
        for p in params:
            pk = p["pk"]
            pos = f'<BYTE-POSITION>{p["pos"]}</BYTE-POSITION>' if p.get("pos") is not None else ""
            bit = f'<BIT-POSITION>{p["bit"]}</BIT-POSITION>' if p.get("bit") else ""
            sem = f' SEMANTIC={quoteattr(p["sem"])}' if p.get("sem") else ""
            nm = f'<SHORT-NAME>{p["name"]}</SHORT-NAME><LONG-NAME>{self.uid()}</LONG-NAME>'
            if pk == "value":
                self._prep_dop(p["dop"], keyids)
                self.dop(p["dop"])
                df = ""
                if p.get("default") is not None:
                    df = f'<PHYSICAL-DEFAULT-VALUE>{_val_str(p["dop"].get("pt", "A_UINT32"), p["default"])}</PHYSICAL-DEFAULT-VALUE>'
                out.append(f'<PARAM{sem} xsi:type="VALUE">{nm}{pos}{bit}{df}<DOP-REF ID-REF="{p["dop"]["id"]}"/></PARAM>')
            elif pk == "system":
                self.dop(p["dop"])
                out.append(f'<PARAM{sem} SYSPARAM="{p["sys"]}" xsi:type="SYSTEM">{nm}{pos}{bit}'
                           f'<DOP-REF ID-REF="{p["dop"]["id"]}"/></PARAM>')
            elif pk == "const":
                out.append(f'<PARAM{sem} xsi:type="CODED-CONST">{nm}{pos}{bit}<CODED-VALUE>'
                           f'{_val_str(p["dct"]["bt"], p["v"])}</CODED-VALUE>{dct_xml(p["dct"])}</PARAM>')
            elif pk == "physconst":
                self.dop(p["dop"])
                out.append(f'<PARAM{sem} xsi:type="PHYS-CONST">{nm}{pos}{bit}<PHYS-CONSTANT-VALUE>'
                           f'{_val_str(p["dop"]["pt"], p["v"])}</PHYS-CONSTANT-VALUE>'
                           f'<DOP-REF ID-REF="{p["dop"]["id"]}"/></PARAM>')
            elif pk == "reserved":
                out.append(f'<PARAM{sem} xsi:type="RESERVED">{nm}{pos}{bit}<BIT-LENGTH>{p["bl"]}</BIT-LENGTH></PARAM>')
            elif pk == "lenkey":
                self.dop(p["dop"])
                out.append(f'<PARAM{sem} ID="{p["id"]}" xsi:type="LENGTH-KEY">{nm}{pos}{bit}'
                           f'<DOP-REF ID-REF="{p["dop"]["id"]}"/></PARAM>')
            elif pk == "matchreq":
                out.append(f'<PARAM{sem} xsi:type="MATCHING-REQUEST-PARAM">{nm}{pos}<REQUEST-BYTE-POS>{p["rpos"]}'
                           f'</REQUEST-BYTE-POS><BYTE-LENGTH>{p["n"]}</BYTE-LENGTH></PARAM>')
            elif pk == "nrc":
                cv = "".join(f"<CODED-VALUE>{v}</CODED-VALUE>" for v in p["vals"])
                out.append(f'<PARAM{sem} xsi:type="NRC-CONST">{nm}{pos}{bit}<CODED-VALUES>{cv}</CODED-VALUES>'
                           f'{dct_xml(p["dct"])}</PARAM>')
            elif pk == "tablekey":
                self.dop(p["table"])
                if p.get("row") is not None:
                    rid = [r["id"] for r in p["table"]["rows"] if r["name"] == p["row"]][0]
                    ref = f'<TABLE-ROW-REF ID-REF="{rid}"/>'
                else:
                    ref = f'<TABLE-REF ID-REF="{p["table"]["id"]}"/>'
                out.append(f'<PARAM{sem} ID="{p["id"]}" xsi:type="TABLE-KEY">{nm}{pos}{bit}{ref}</PARAM>')
            elif pk == "tablestruct":
                if p.get("snref"):
                    ref = f'<TABLE-KEY-SNREF SHORT-NAME="{p["key"]}"/>'
                else:
                    ref = f'<TABLE-KEY-REF ID-REF="{keyids[p["key"]]}"/>'
                out.append(f'<PARAM{sem} xsi:type="TABLE-STRUCT">{nm}{pos}{ref}</PARAM>')
            else:
                raise ValueError(pk)
        return "".join(out)

    def _prep_dop(self, dop, keyids) -> None:
        if dop.get("k") == "simple" and dop["dct"]["t"] == "paramlen":
            dop["dct"]["keyid"] = keyids[dop["dct"]["key"]]


SECTION_ORDER = ["DTC-DOPS", "ENV-DATA-DESCS", "DATA-OBJECT-PROPS", "STRUCTURES", "STATIC-FIELDS",
                 "DYNAMIC-LENGTH-FIELDS", "DYNAMIC-ENDMARKER-FIELDS", "END-OF-PDU-FIELDS", "MUXS", "ENV-DATAS",
                 "TABLES"]


def message_doc(msgs: list, layer_type: str = "BASE-VARIANT") -> bytes:
    """one container, one layer, one service per request message; responses attached to service 0
    (or to the service named by msg["svc"])."""
    col = Collector()
    reqs, resps, gresps, svcs = [], [], [], []
    nsvc = 0
    svc_map: dict[int, dict] = {}
    for i, m in enumerate(msgs):
        px = col.params(m["params"])
        mid = m.get("id") or f"m{i}"
        nm = f'<SHORT-NAME>{mid}</SHORT-NAME><LONG-NAME>{col.uid()}</LONG-NAME>'
        if m["kind"] == "request":
            reqs.append(f'<REQUEST ID="{mid}">{nm}<PARAMS>{px}</PARAMS></REQUEST>')
            svc_map[i] = {"rq": mid, "pos": [], "neg": []}
        else:
            rt = m.get("rtype", "POS-RESPONSE")
            tag = {"POS-RESPONSE": "POS-RESPONSE", "NEG-RESPONSE": "NEG-RESPONSE",
                   "GLOBAL-NEG-RESPONSE": "GLOBAL-NEG-RESPONSE"}[rt]
            x = f'<{tag} ID="{mid}">{nm}<PARAMS>{px}</PARAMS></{tag}>'
            if rt == "GLOBAL-NEG-RESPONSE":
                gresps.append(x)
            else:
                resps.append((rt, x, mid, m.get("svc")))
    # services
    if not svc_map:
        # a dummy request so that responses have a service to hang on
        reqs.append('<REQUEST ID="rq_dummy"><SHORT-NAME>rq_dummy</SHORT-NAME></REQUEST>')
        svc_map[-1] = {"rq": "rq_dummy", "pos": [], "neg": []}
    first = next(iter(svc_map.values()))
    for rt, x, mid, svc in resps:
        tgt = svc_map.get(svc, first) if svc is not None else first
        tgt["pos" if rt == "POS-RESPONSE" else "neg"].append(mid)
    sx = ""
    for j, (i, s) in enumerate(svc_map.items()):
        pr = "".join(f'<POS-RESPONSE-REF ID-REF="{r}"/>' for r in s["pos"])
        nr = "".join(f'<NEG-RESPONSE-REF ID-REF="{r}"/>' for r in s["neg"])
        pr = f"<POS-RESPONSE-REFS>{pr}</POS-RESPONSE-REFS>" if pr else ""
        nr = f"<NEG-RESPONSE-REFS>{nr}</NEG-RESPONSE-REFS>" if nr else ""
        sx += (f'<DIAG-SERVICE ID="svc{j}"><SHORT-NAME>svc{j}</SHORT-NAME><LONG-NAME>{col.uid()}</LONG-NAME>'
               f'<REQUEST-REF ID-REF="{s["rq"]}"/>{pr}{nr}</DIAG-SERVICE>')
    ddds = ""
    for sec in SECTION_ORDER:
        if col.sections.get(sec):
            ddds += f"<{sec}>{''.join(col.sections[sec])}</{sec}>"
    pos_x = "".join(x for rt, x, _, _ in resps if rt == "POS-RESPONSE")
    neg_x = "".join(x for rt, x, _, _ in resps if rt == "NEG-RESPONSE")
    lt = layer_type
    xml = (f'<?xml version="1.0" encoding="UTF-8"?><ODX MODEL-VERSION="2.2.0" {XSI}>'
           f'<DIAG-LAYER-CONTAINER ID="dlc"><SHORT-NAME>dlc</SHORT-NAME><{lt}S><{lt} ID="layer">'
           f'<SHORT-NAME>layer</SHORT-NAME><DIAG-DATA-DICTIONARY-SPEC>{ddds}</DIAG-DATA-DICTIONARY-SPEC>'
           f'<DIAG-COMMS>{sx}</DIAG-COMMS><REQUESTS>{"".join(reqs)}</REQUESTS>'
           + (f'<POS-RESPONSES>{pos_x}</POS-RESPONSES>' if pos_x else "")
           + (f'<NEG-RESPONSES>{neg_x}</NEG-RESPONSES>' if neg_x else "")
           + (f'<GLOBAL-NEG-RESPONSES>{"".join(gresps)}</GLOBAL-NEG-RESPONSES>' if gresps else "")
           + f'</{lt}></{lt}S></DIAG-LAYER-CONTAINER></ODX>')
    return xml.encode("utf-8")


def load(xml: bytes):
    from odxtools.database import Database
    db = Database()
    db.add_odx_file(io.BytesIO(xml))
    db.refresh()
    return db


def load_messages(msgs: list):
    """returns (db, layer, [odxtools coding object per message])"""
    xml = message_doc(msgs)
    db = load(xml)
    layer = db.diag_layers[0]
    objs = []
    for i, m in enumerate(msgs):
        mid = m.get("id") or f"m{i}"
        if m["kind"] == "request":
            objs.append(next(r for r in layer.diag_layer_raw.requests if r.short_name == mid))
        elif m.get("rtype") == "GLOBAL-NEG-RESPONSE":
            objs.append(next(r for r in layer.diag_layer_raw.global_negative_responses if r.short_name == mid))
        elif m.get("rtype") == "NEG-RESPONSE":
            objs.append(next(r for r in layer.diag_layer_raw.negative_responses if r.short_name == mid))
        else:
            objs.append(next(r for r in layer.diag_layer_raw.positive_responses if r.short_name == mid))
    return db, layer, objs
