"""Independent reference encoder for the ODX wire format (DESIGN 2.3).

Pure Python over big integers.  Imports nothing from odxtools or bitstruct.

IR (plain JSON-able dicts, bytes as `bytes` in memory)
------------------------------------------------------
DCT   {"t":"std","bt":BT,"bl":n,"enc":E|None,"hl":True|False|None,"mask":int|None,"cond":bool}
      {"t":"minmax","bt":BT,"min":a,"max":b|None,"term":"ZERO"|"HEX-FF"|"END-OF-PDU","enc":E,"hl":..}
      {"t":"leading","bt":BT,"bl":n,"enc":E,"hl":..}
      {"t":"paramlen","bt":BT,"key":<short name of LENGTH-KEY param>,"enc":E,"hl":..}
COMPU {"c":"IDENTICAL"} | {"c":"LINEAR","n0":int,"n1":int,"d":int} |
      {"c":"TEXTTABLE","rows":[[lo,hi,text],...],"default":text|absent}
DOP   {"k":"simple","id":..,"dct":DCT,"compu":COMPU,"pt":BT}
      {"k":"dtc","id","dct":DCT(std uint),"dtcs":[[name,code],...]}
      {"k":"struct","id","params":[PARAM..],"bs":None|int}
      {"k":"sfield","id","st":STRUCT,"n":int,"isz":int}
      {"k":"dlfield","id","st":STRUCT,"off":int,"cnt":{"dop":DOP,"bp":int,"bit":int}}
      {"k":"emfield","id","st":STRUCT,"tdop":DOP,"tv":int}
      {"k":"eopf","id","st":STRUCT,"min":None|int,"max":None|int}
      {"k":"mux","id","bp":int,"key":{"dop":DOP,"bp":int,"bit":int},
             "cases":[{"name","lo","hi","st":STRUCT|None}],"default":None|{"name","st"}}
      {"k":"table","id","keydop":DOP,"rows":[{"name","id","key":int,"st":STRUCT|None,"dop":DOP|None}]}
      {"k":"envdesc","id","param":name,"envs":[{"id","name","all":bool,"dtcs":[int],"params":[PARAM]}]}
PARAM {"pk":"value","name","pos":None|int,"bit":int,"dop":DOP,"default":None|phys}
      {"pk":"const","name","pos","bit","dct":DCT,"v":internal}
      {"pk":"physconst","name","pos","bit","dop":DOP,"v":phys}
      {"pk":"reserved","name","pos","bit","bl":int}
      {"pk":"lenkey","name","id","pos","bit","dop":DOP}
      {"pk":"matchreq","name","pos","rpos":int,"n":int}
      {"pk":"nrc","name","pos","bit","dct":DCT,"vals":[int]}
      {"pk":"tablekey","name","id","pos","bit","table":TABLE,"row":None|rowname}
      {"pk":"tablestruct","name","pos","key":<short name of TABLE-KEY param>}
      {"pk":"system","name","pos","bit","dop":DOP,"sys":str}
MSG   {"kind":"request"|"response","rtype":"POS-RESPONSE"|"NEG-RESPONSE"|"GLOBAL-NEG-RESPONSE","params":[PARAM]}
"""
from __future__ import annotations

import struct
from fractions import Fraction
from typing import Any, Optional

INT_TYPES = ("A_INT32", "A_UINT32")
FLOAT_TYPES = ("A_FLOAT32", "A_FLOAT64")
STR_TYPES = ("A_ASCIISTRING", "A_UTF8STRING", "A_UNICODE2STRING")
NUMERIC = INT_TYPES + FLOAT_TYPES


class RefReject(Exception):
    """the value is outside the representable set of the object (reference's verdict)"""


class RefUnsupported(Exception):
    """the reference does not define the wire image for this case (caller must not assert)"""


# ---------------------------------------------------------------------------
# atomic values
# ---------------------------------------------------------------------------
def str_codec(bt: str, enc: Optional[str], hl: bool) -> str:
    if enc == "UTF-8" or (bt == "A_UTF8STRING" and enc in (None,)):
        return "utf-8"
    if enc == "UCS-2" or (bt == "A_UNICODE2STRING" and enc in (None,)):
        return "utf-16-be" if hl else "utf-16-le"
    if enc == "ISO-8859-1" or (bt == "A_ASCIISTRING" and enc in (None,)):
        return "iso-8859-1"
    if enc == "ISO-8859-2":
        return "iso-8859-2"
    if enc == "WINDOWS-1252":
        return "cp1252"
    raise RefUnsupported(f"string encoding {enc} for {bt}")


def hl_of(dct) -> bool:
    return dct.get("hl") in (None, True)


def int_range(bt: str, enc: Optional[str], n: int) -> tuple[int, int]:
    """closed range of representable integers"""
    if bt == "A_UINT32":
        if enc in (None, "NONE"):
            return 0, (1 << n) - 1
        if enc == "BCD-P":
            if n % 4:
                raise RefUnsupported("BCD-P needs a multiple of 4 bits")
            return 0, 10 ** (n // 4) - 1
        if enc == "BCD-UP":
            if n % 8:
                raise RefUnsupported("BCD-UP needs a multiple of 8 bits")
            return 0, 10 ** (n // 8) - 1
        raise RefUnsupported(f"encoding {enc} for A_UINT32")
    if bt == "A_INT32":
        if n < 1:
            raise RefUnsupported("signed needs >= 1 bit")
        if enc in (None, "2C"):
            return -(1 << (n - 1)), (1 << (n - 1)) - 1
        if enc in ("1C", "SM"):
            return -((1 << (n - 1)) - 1), (1 << (n - 1)) - 1
        raise RefUnsupported(f"encoding {enc} for A_INT32")
    raise RefUnsupported(bt)


def int_to_raw(bt: str, enc: Optional[str], n: int, v: Any) -> int:
    if isinstance(v, bool) or not isinstance(v, int):
        raise RefReject(f"{v!r} is not an integer")
    lo, hi = int_range(bt, enc, n)
    if not (lo <= v <= hi):
        raise RefReject(f"{v} outside [{lo}, {hi}]")
    if bt == "A_UINT32":
        if enc in (None, "NONE"):
            return v
        step = 4 if enc == "BCD-P" else 8
        raw, sh = 0, 0
        while v:
            raw |= (v % 10) << sh
            sh += step
            v //= 10
        return raw
    if enc in (None, "2C"):
        return v & ((1 << n) - 1)
    if enc == "1C":
        return v if v >= 0 else ((1 << n) - 1) + v
    return v if v >= 0 else (1 << (n - 1)) | (-v)


def float_to_raw(bt: str, v: Any) -> tuple[int, int]:
    if isinstance(v, bool) or not isinstance(v, (int, float)):
        raise RefReject(f"{v!r} is not a number")
    if bt == "A_FLOAT32":
        try:
            b = struct.pack(">f", v)
        except OverflowError:
            raise RefReject("float32 overflow")
        return int.from_bytes(b, "big"), 32
    return int.from_bytes(struct.pack(">d", v), "big"), 64


def to_bytes_value(bt: str, enc: Optional[str], hl: bool, v: Any) -> bytes:
    if bt == "A_BYTEFIELD":
        if not isinstance(v, (bytes, bytearray)):
            raise RefReject(f"{v!r} is not a byte field")
        return bytes(v)
    if not isinstance(v, str):
        raise RefReject(f"{v!r} is not a string")
    try:
        return v.encode(str_codec(bt, enc, hl))
    except UnicodeEncodeError:
        raise RefReject("character outside the encoding")


# ---------------------------------------------------------------------------
# compu methods (the small exact subset used by the message-level checks;
# the full reference for C07 lives in vlib/refcompu.py)
# ---------------------------------------------------------------------------
def p2i(dop, phys: Any) -> Any:
    c = dop["compu"]
    it = dop["dct"]["bt"]
    if c["c"] == "IDENTICAL":
        if it in INT_TYPES and (isinstance(phys, bool) or not isinstance(phys, int)):
            raise RefReject("identical: int expected")
        if it in FLOAT_TYPES and (isinstance(phys, bool) or not isinstance(phys, (int, float))):
            raise RefReject("identical: number expected")
        if it in STR_TYPES and not isinstance(phys, str):
            raise RefReject("identical: str expected")
        if it == "A_BYTEFIELD" and not isinstance(phys, (bytes, bytearray)):
            raise RefReject("identical: bytes expected")
        return phys
    if c["c"] == "LINEAR":
        if isinstance(phys, bool) or not isinstance(phys, (int, float)):
            raise RefReject("linear: number expected")
        x = (Fraction(phys) * c["d"] - c["n0"]) / c["n1"]
        if it in INT_TYPES:
            if x.denominator != 1:
                # nearest integer; the generators only produce exact images
                fl = x.numerator // x.denominator
                x = Fraction(fl if x - fl < Fraction(1, 2) else fl + 1)
            return int(x)
        return float(x)
    if c["c"] == "TEXTTABLE":
        if not isinstance(phys, str):
            raise RefReject("texttable: str expected")
        for lo, hi, text in c["rows"]:
            if text == phys:
                return lo
        raise RefReject("texttable: unknown text")
    raise RefUnsupported(c["c"])


def i2p(dop, internal: Any) -> Any:
    c = dop["compu"]
    if c["c"] == "IDENTICAL":
        return internal
    if c["c"] == "LINEAR":
        y = (Fraction(c["n0"]) + Fraction(c["n1"]) * Fraction(internal)) / c["d"]
        if dop["pt"] in INT_TYPES:
            if y.denominator != 1:
                raise RefUnsupported("non-integral image")
            return int(y)
        return float(y)
    if c["c"] == "TEXTTABLE":
        for lo, hi, text in c["rows"]:
            if lo <= internal <= hi:
                return text
        if c.get("default") is not None:
            return c["default"]
        raise RefReject("texttable: no row")
    raise RefUnsupported(c["c"])


# ---------------------------------------------------------------------------
# PDU under construction
# ---------------------------------------------------------------------------
class Pdu:
    def __init__(self):
        self.buf = bytearray()
        self.used = bytearray()      # bits claimed by described objects
        self.overlap = False         # two described objects claimed one bit
        self.overlaps: list = []
        self.pad: set = set()        # padding bytes of BYTE-SIZE structures / field items
        self.reserved: set = set()   # bytes covered by RESERVED parameters (described, but carry no value)

    def ensure(self, n: int) -> None:
        if len(self.buf) < n:
            self.buf += bytes(n - len(self.buf))
            self.used += bytes(n - len(self.used))

    def put(self, pos: int, data: bytes, mask: bytes, what: str = "") -> None:
        self.ensure(pos + len(data))
        for i, (b, m) in enumerate(zip(data, mask)):
            if self.used[pos + i] & m:
                self.overlap = True
                self.overlaps.append((pos + i, what))
            self.buf[pos + i] = (self.buf[pos + i] & ~m & 0xFF) | (b & m)
            self.used[pos + i] |= m

    def put_bits(self, pos: int, bit: int, n: int, raw: int, le: bool, mask: Optional[int] = None,
                 what: str = "") -> int:
        """place an n-bit object whose least significant bit is at bit `bit` of the word; returns
        the byte after the object"""
        if n == 0:
            self.ensure(pos)
            return pos
        k = (bit + n + 7) // 8
        m = ((1 << n) - 1) if mask is None else (mask & ((1 << n) - 1))
        w = ((raw & ((1 << n) - 1)) << bit).to_bytes(k, "big")
        mm = (m << bit).to_bytes(k, "big")
        if le:
            w, mm = w[::-1], mm[::-1]
        self.put(pos, w, mm, what)
        return pos + k

    def put_bytes(self, pos: int, data: bytes, what: str = "") -> int:
        self.put(pos, data, b"\xff" * len(data), what)
        self.ensure(pos + len(data))
        return pos + len(data)

    def claim(self, pos: int, n: int) -> None:
        """padding bytes: zero; not value carrying (kept apart from `used`)"""
        self.ensure(pos + n)
        self.pad.update(range(pos, pos + n))


class Ctx:
    def __init__(self, request: Optional[bytes]):
        self.pdu = Pdu()
        self.request = request
        self.assumptions: set = set()


# ---------------------------------------------------------------------------
# diag coded types
# ---------------------------------------------------------------------------
def enc_dct(ctx: Ctx, dct, internal: Any, pos: int, bit: int, eop: bool, scope: dict, what: str) -> int:
    """encode one internal value; returns the byte position after the object"""
    pdu = ctx.pdu
    bt, enc, hl = dct["bt"], dct.get("enc"), hl_of(dct)
    t = dct["t"]
    if t == "std":
        n = dct["bl"]
        mask = dct.get("mask")
        if dct.get("cond"):
            raise RefUnsupported("condensed bit mask")
        if bt in INT_TYPES:
            raw = int_to_raw(bt, enc, n, internal)
            if mask is not None:
                if raw & ~mask:
                    raise RefReject("value has bits outside the bit mask")
            return pdu.put_bits(pos, bit, n, raw, not hl, mask, what)
        if bt in FLOAT_TYPES:
            raw, fn = float_to_raw(bt, internal)
            if fn != n:
                raise RefUnsupported("float bit length")
            if bit:
                raise RefUnsupported("float at bit position")
            return pdu.put_bits(pos, 0, n, raw, not hl, None, what)
        data = to_bytes_value(bt, enc, hl, internal)
        if bit:
            raise RefUnsupported("bytes at bit position")
        if len(data) * 8 != n:
            raise RefReject(f"value has {len(data)} bytes, field has {n} bits")
        if mask is not None:
            if bt != "A_BYTEFIELD":
                raise RefUnsupported("mask on string")
            mb = (mask & ((1 << n) - 1)).to_bytes(n // 8, "big")
            if any(d & ~m & 0xFF for d, m in zip(data, mb)):
                raise RefReject("value has bits outside the bit mask")
            pdu.put(pos, data, mb, what)
            return pos + len(data)
        return pdu.put_bytes(pos, data, what)
    if bit:
        raise RefUnsupported("dynamic-length object at bit position")
    if t == "minmax":
        data = to_bytes_value(bt, enc, hl, internal)
        unit = 2 if bt == "A_UNICODE2STRING" else 1
        term = {"ZERO": b"\x00" * unit, "HEX-FF": b"\xff" * unit, "END-OF-PDU": b""}[dct["term"]]
        if len(data) < dct["min"] or (dct["max"] is not None and len(data) > dct["max"]):
            raise RefReject("length outside MIN/MAX")
        if dct["term"] == "END-OF-PDU" and not eop and len(data) != dct["max"]:
            raise RefUnsupported("END-OF-PDU termination inside the PDU")
        if term:
            # a terminator inside the value (unit aligned) makes the wire image ambiguous
            for i in range(0, len(data) - unit + 1, unit):
                if i >= dct["min"] and data[i:i + unit] == term:
                    raise RefReject("value contains the terminator")
        end = pdu.put_bytes(pos, data, what)
        if not eop and len(data) != dct["max"] and term:
            end = pdu.put_bytes(end, term, what + ":terminator")
        return end
    if t == "leading":
        data = to_bytes_value(bt, enc, hl, internal)
        n = dct["bl"]
        if len(data) >= (1 << n):
            raise RefReject("value too long for the length field")
        p = pdu.put_bits(pos, 0, n, len(data), not hl, None, what + ":length")
        return pdu.put_bytes(p, data, what)
    if t == "paramlen":
        key = dct["key"]
        explicit = scope["lenkeys"].get(key)
        if bt in INT_TYPES:
            if explicit is None:
                # implicit key: minimal number of whole bytes (assumption, listed in evidence)
                ctx.assumptions.add("implicit length key of an integer = minimal whole bytes")
                v = internal
                if isinstance(v, bool) or not isinstance(v, int):
                    raise RefReject("int expected")
                need = v.bit_length() + (1 if bt == "A_INT32" else 0)
                if bt == "A_UINT32" and v < 0:
                    raise RefReject("negative")
                n = max(8, ((need + 7) // 8) * 8) if need else 0
                if enc not in (None, "NONE", "2C"):
                    raise RefUnsupported("implicit key with encoding")
            else:
                n = explicit
            scope["lenkeys"][key] = n
            if n == 0:
                if internal != 0:
                    raise RefReject("zero bits")
                pdu.ensure(pos)
                return pos
            raw = int_to_raw(bt, enc, n, internal)
            return pdu.put_bits(pos, bit, n, raw, not hl, None, what)
        if bt in FLOAT_TYPES:
            raw, fn = float_to_raw(bt, internal)
            if explicit is not None and explicit != fn:
                raise RefReject("length key does not fit the float")
            scope["lenkeys"][key] = fn
            return pdu.put_bits(pos, 0, fn, raw, not hl, None, what)
        data = to_bytes_value(bt, enc, hl, internal)
        n = 8 * len(data)
        if explicit is not None and explicit != n:
            raise RefReject("explicit length key differs from the value's length")
        scope["lenkeys"][key] = n
        return pdu.put_bytes(pos, data, what)
    raise RefUnsupported(t)


def dct_static_bits(dct) -> Optional[int]:
    if dct["t"] == "std":
        return dct["bl"]
    return None


# ---------------------------------------------------------------------------
# data objects
# ---------------------------------------------------------------------------
def enc_dop(ctx: Ctx, dop, value: Any, pos: int, bit: int, eop: bool, scope: dict, what: str):
    """returns (cursor after, expected decoded value)"""
    k = dop["k"]
    pdu = ctx.pdu
    if k == "simple":
        internal = p2i(dop, value)
        end = enc_dct(ctx, dop["dct"], internal, pos, bit, eop, scope, what)
        exp = i2p(dop, internal)
        return end, exp
    if k == "dtc":
        code = value
        if isinstance(value, str):
            m = [c for n_, c in dop["dtcs"] if n_ == value]
            if not m:
                raise RefReject("unknown DTC name")
            code = m[0]
        if isinstance(code, bool) or not isinstance(code, int) or code not in [c for _, c in dop["dtcs"]]:
            raise RefReject("unknown DTC")
        end = enc_dct(ctx, dop["dct"], code, pos, bit, eop, scope, what)
        return end, {"__dtc__": code}
    if bit:
        raise RefUnsupported("complex DOP at bit position")
    if k == "struct":
        return enc_struct(ctx, dop, value, pos, eop, what)
    if k == "sfield":
        if not isinstance(value, (list, tuple)) or len(value) != dop["n"]:
            raise RefReject("static field needs exactly n items")
        out = []
        for i, it in enumerate(value):
            p = pos + i * dop["isz"]
            end, ev = enc_struct(ctx, dop["st"], it, p, False, f"{what}[{i}]")
            if end - p > dop["isz"]:
                raise RefReject("item larger than ITEM-BYTE-SIZE")
            pdu.claim(end, dop["isz"] - (end - p))
            out.append(ev)
        end = pos + dop["n"] * dop["isz"]
        pdu.ensure(end)
        return end, out
    if k == "dlfield":
        if not isinstance(value, (list, tuple)):
            raise RefReject("list expected")
        cnt = dop["cnt"]
        ce, _ = enc_dop(ctx, cnt["dop"], len(value), pos + cnt["bp"], cnt.get("bit") or 0, False, scope,
                        what + ":count")
        if ce - pos > dop["off"]:
            raise RefUnsupported("count overlaps first item")
        cur = pos + dop["off"]
        pdu.ensure(cur)
        out = []
        for i, it in enumerate(value):
            cur, ev = enc_struct(ctx, dop["st"], it, cur, eop and i == len(value) - 1, f"{what}[{i}]")
            out.append(ev)
        return cur, out
    if k == "eopf":
        if not isinstance(value, (list, tuple)):
            raise RefReject("list expected")
        if not eop:
            raise RefUnsupported("end-of-pdu field inside the PDU")
        cur = pos
        pdu.ensure(cur)
        out = []
        for i, it in enumerate(value):
            cur, ev = enc_struct(ctx, dop["st"], it, cur, i == len(value) - 1, f"{what}[{i}]")
            out.append(ev)
        return cur, out
    if k == "emfield":
        if not isinstance(value, (list, tuple)):
            raise RefReject("list expected")
        cur = pos
        pdu.ensure(cur)
        out = []
        for i, it in enumerate(value):
            cur, ev = enc_struct(ctx, dop["st"], it, cur, eop and i == len(value) - 1, f"{what}[{i}]")
            out.append(ev)
        if not eop:
            # termination value written at the cursor, not consumed
            enc_dop(ctx, dop["tdop"], dop["tv"], cur, 0, False, scope, what + ":endmarker")
        return cur, out
    if k == "mux":
        case, content = _mux_select(dop, value)
        key = dop["key"]
        kv = case["lo"] if "lo" in case else 0
        ke, _ = enc_dop(ctx, key["dop"], kv, pos + key["bp"], key.get("bit") or 0, False, scope, what + ":key")
        if case.get("st") is not None:
            cur, ev = enc_struct(ctx, case["st"], content, pos + dop["bp"], eop, what + ":" + case["name"])
            return cur, {"__mux__": [case["name"], ev]}
        return ke, {"__mux__": [case["name"], {}], "__cursor_undefined__": (pos + dop["bp"]) != ke}
    raise RefUnsupported(k)


def _mux_select(dop, value):
    if isinstance(value, (list, tuple)) and len(value) == 2:
        spec, content = value
    elif isinstance(value, dict) and len(value) == 1:
        spec, content = next(iter(value.items()))
    else:
        raise RefReject("mux value must be (case, content)")
    if isinstance(spec, str):
        for c in dop["cases"]:
            if c["name"] == spec:
                return c, content
        if dop.get("default") and dop["default"]["name"] == spec:
            # the description does not fix the key of a default case selected by name; odxtools documents
            # "the smallest non-negative value that is not covered by any of the regular cases" (assumption)
            used = set()
            for c in dop["cases"]:
                used |= set(range(c["lo"], c["hi"] + 1))
            k = 0
            while k in used:
                k += 1
            d = dict(dop["default"])
            d["lo"] = k
            return d, content
        raise RefReject("unknown case")
    if isinstance(spec, int) and not isinstance(spec, bool):
        for c in dop["cases"]:
            if c["lo"] <= spec <= c["hi"]:
                cc = dict(c)
                cc["lo"] = spec
                return cc, content
        if dop.get("default"):
            d = dict(dop["default"])
            d["lo"] = spec
            return d, content
        raise RefReject("no case for key")
    raise RefReject("bad case spec")


def enc_struct(ctx: Ctx, st, value: Any, origin: int, eop: bool, what: str):
    if not isinstance(value, dict):
        raise RefReject("dict expected for a structure")
    end, maxend, exp = enc_params(ctx, st["params"], value, origin, eop, what)
    if st.get("bs") is not None:
        if maxend - origin > st["bs"]:
            raise RefReject("structure larger than BYTE-SIZE")
        # padding at the end of that structure (zero bytes, claimed)
        ctx.pdu.ensure(origin + st["bs"])
        ctx.pdu.claim(maxend, origin + st["bs"] - maxend)
        end = origin + st["bs"]
    return end, exp


def enc_params(ctx: Ctx, params, values: dict, origin: int, eop: bool, what: str, allow_unknown: bool = False):
    """encode a parameter list (request, response, structure, env-data)"""
    pdu = ctx.pdu
    pdu.ensure(origin)
    names = {p["name"] for p in params}
    if not allow_unknown:
        for k in values:
            if k not in names:
                raise RefReject(f"unknown parameter {k}")
    scope = {"lenkeys": {}, "tablekeys": {}, "journal": {}}
    # explicit keys first (they are consulted by their users)
    for p in params:
        if p["pk"] == "lenkey" and values.get(p["name"]) is not None:
            v = values[p["name"]]
            if isinstance(v, bool) or not isinstance(v, int) or v < 0:
                raise RefReject("length key must be a non-negative int")
            scope["lenkeys"][p["name"]] = v
        if p["pk"] == "tablekey":
            if p.get("row") is not None:
                scope["tablekeys"][p["name"]] = p["row"]
                if values.get(p["name"]) not in (None, p["row"]):
                    raise RefReject("static table key cannot be changed")
            elif values.get(p["name"]) is not None:
                v = values[p["name"]]
                if not isinstance(v, str):
                    raise RefReject("table key must be a row name")
                scope["tablekeys"][p["name"]] = v
    cursor = origin
    maxend = origin
    exp: dict = {}
    keypos: dict = {}
    n = len(params)
    for idx, p in enumerate(params):
        last = idx == n - 1
        p_eop = eop and last
        pos = origin + p["pos"] if p.get("pos") is not None else cursor
        bit = p.get("bit") or 0
        pk = p["pk"]
        w = f"{what}.{p['name']}"
        val = values.get(p["name"])
        if pk == "value":
            if val is None:
                val = p.get("default")
                if val is None:
                    raise RefReject(f"required parameter {p['name']} missing")
            if p["dop"]["k"] == "envdesc":
                end, ev = enc_envdesc(ctx, p["dop"], val, pos, p_eop, scope, w)
            else:
                end, ev = enc_dop(ctx, p["dop"], val, pos, bit, p_eop, scope, w)
            exp[p["name"]] = ev
            scope["journal"][p["name"]] = (p, val)
        elif pk == "system":
            if val is None:
                raise RefUnsupported("system parameter without explicit value")
            end, ev = enc_dop(ctx, p["dop"], val, pos, bit, p_eop, scope, w)
            exp[p["name"]] = ev
        elif pk == "const":
            if val is not None and val != p["v"]:
                raise RefReject("constant cannot be changed")
            end = enc_dct(ctx, p["dct"], p["v"], pos, bit, p_eop, scope, w)
            exp[p["name"]] = p["v"]
            scope["journal"][p["name"]] = (p, p["v"])
        elif pk == "physconst":
            if val is not None and val != p["v"]:
                raise RefReject("constant cannot be changed")
            end, ev = enc_dop(ctx, p["dop"], p["v"], pos, bit, p_eop, scope, w)
            exp[p["name"]] = ev
            scope["journal"][p["name"]] = (p, p["v"])
        elif pk == "reserved":
            if val is not None:
                raise RefReject("reserved parameter cannot be set")
            end = pos + (bit + p["bl"] + 7) // 8
            pdu.ensure(end)
            pdu.reserved.update(range(pos, end))
            exp[p["name"]] = {"__reserved__": 0}
        elif pk == "matchreq":
            if val is not None:
                raise RefReject("matching-request parameter cannot be set")
            rq = ctx.request
            if rq is None or len(rq) < p["rpos"] + p["n"]:
                raise RefReject("request too short for MATCHING-REQUEST-PARAM")
            sl = rq[p["rpos"]:p["rpos"] + p["n"]]
            end = pdu.put_bytes(pos, sl, w)
            exp[p["name"]] = {"__reqbytes__": sl}
        elif pk == "nrc":
            if val is not None:
                raise RefReject("NRC-CONST cannot be set")
            sb = dct_static_bits(p["dct"])
            end = pos + (bit + sb + 7) // 8
            pdu.ensure(end)
            exp[p["name"]] = {"__nrc__": [pos, bit, sb, list(p["vals"])]}
        elif pk == "lenkey":
            sb = dct_static_bits(p["dop"]["dct"])
            end = pos + (bit + sb + 7) // 8
            pdu.ensure(end)
            keypos[p["name"]] = (pos, bit)
        elif pk == "tablekey":
            # a statically selected row (TABLE-ROW-REF): its key is on the wire like a constant
            sb = dct_static_bits(p["table"]["keydop"]["dct"])
            end = pos + (bit + sb + 7) // 8
            pdu.ensure(end)
            keypos[p["name"]] = (pos, bit)
        elif pk == "tablestruct":
            if not isinstance(val, (list, tuple)) or len(val) != 2 or not isinstance(val[0], str):
                raise RefReject("table struct value must be (row, content)")
            kname = p["key"]
            kp = [q for q in params if q["pk"] == "tablekey" and q["name"] == kname][0]
            cur_key = scope["tablekeys"].get(kname)
            if cur_key is not None and cur_key != val[0]:
                raise RefReject("conflicting table rows")
            scope["tablekeys"][kname] = val[0]
            rows = [r for r in kp["table"]["rows"] if r["name"] == val[0]]
            if not rows:
                raise RefReject("unknown table row")
            row = rows[0]
            if row.get("st") is not None:
                end, ev = enc_struct(ctx, row["st"], val[1], pos, p_eop, w)
            elif row.get("dop") is not None:
                end, ev = enc_dop(ctx, row["dop"], val[1], pos, 0, p_eop, scope, w)
            else:
                end, ev = pos, None
                pdu.ensure(end)
            exp[p["name"]] = {"__tstruct__": [val[0], ev]}
        else:
            raise RefUnsupported(pk)
        cursor = end
        maxend = max(maxend, end)
    # now the keys
    for p in params:
        if p["pk"] == "lenkey":
            if p["name"] not in scope["lenkeys"]:
                raise RefReject("length key never defined")
            kv = scope["lenkeys"][p["name"]]
            pos, bit = keypos[p["name"]]
            enc_dop(ctx, p["dop"], kv, pos, bit, False, scope, f"{what}.{p['name']}")
            exp[p["name"]] = kv
        elif p["pk"] == "tablekey":
            if p["name"] not in scope["tablekeys"]:
                raise RefReject("table key never defined")
            rn = scope["tablekeys"][p["name"]]
            rows = [r for r in p["table"]["rows"] if r["name"] == rn]
            if not rows:
                raise RefReject("unknown table row")
            pos, bit = keypos[p["name"]]
            enc_dop(ctx, p["table"]["keydop"], rows[0]["key"], pos, bit, False, scope, f"{what}.{p['name']}")
            exp[p["name"]] = rn
    # keep list order of the description in the expectation
    exp = {p["name"]: exp[p["name"]] for p in params if p["name"] in exp}
    return cursor, maxend, exp


def enc_envdesc(ctx: Ctx, dop, value: Any, pos: int, eop: bool, scope: dict, what: str):
    """ENV-DATA-DESC: the ALL-VALUE environment data (if any) followed by the environment data listing the
    trouble code of the referenced (earlier) parameter; all of them draw their values from one dictionary"""
    if not isinstance(value, dict):
        raise RefReject("dict expected for environment data")
    j = scope["journal"].get(dop["param"])
    if j is None:
        raise RefReject("ENV-DATA-DESC refers to a parameter that has not been encoded before it")
    jp, jv = j
    if jp["pk"] in ("value", "physconst") and jp["dop"]["k"] == "dtc":
        code = jv
        if isinstance(jv, str):
            code = [c for n_, c in jp["dop"]["dtcs"] if n_ == jv][0]
    elif jp["pk"] in ("value", "physconst"):
        code = p2i(jp["dop"], jv)
    elif jp["pk"] == "const":
        code = jp["v"]
    else:
        raise RefUnsupported("ENV-DATA-DESC reference kind")
    cur = pos
    exp: dict = {}
    ctx.pdu.ensure(cur)
    for sel in (lambda e: e.get("all"), lambda e: code in e.get("dtcs", [])):
        for e in dop["envs"]:
            if sel(e):
                cur, _maxend, ev = enc_params(ctx, e["params"], value, cur, False, f"{what}:{e['name']}", allow_unknown=True)
                exp.update(ev)
                break
    return cur, exp


class Encoded:
    def __init__(self, pdu: bytes, used: bytes, overlap: bool, expected: dict, cursor_end: int, assumptions):
        self.pdu = pdu
        self.used = used
        self.overlap = overlap
        self.expected = expected
        self.cursor_end = cursor_end
        self.assumptions = assumptions


def encode_message(msg, values: dict, request: Optional[bytes] = None) -> Encoded:
    ctx = Ctx(request)
    end, _maxend, exp = enc_params(ctx, msg["params"], values, 0, True, msg.get("kind", "msg"))
    # resolve NRC expectations: the value actually present at that position
    for name, ev in list(exp.items()):
        if isinstance(ev, dict) and "__nrc__" in ev:
            pos, bit, sb, vals = ev["__nrc__"]
            k = (bit + sb + 7) // 8
            word = int.from_bytes(bytes(ctx.pdu.buf[pos:pos + k]), "big")
            v = (word >> bit) & ((1 << sb) - 1)
            if v not in vals:
                raise RefReject("NRC-CONST: value on the wire is not one of the coded values")
            exp[name] = v
    out = Encoded(bytes(ctx.pdu.buf), bytes(ctx.pdu.used), ctx.pdu.overlap, exp, end, sorted(ctx.assumptions))
    out.reserved = sorted(ctx.pdu.reserved)
    return out
