"""Exact compu-method reference (DESIGN 2.4).  Pure Python over fractions.Fraction; imports
nothing from odxtools.

IR of a compu method (plain JSON-able dict; every number is the *text* that would stand in
the ODX file, so the same IR feeds the XML emitter, the direct dataclass construction and
this reference):

    {"cat": "LINEAR" | "SCALE-LINEAR" | "IDENTICAL" | "TEXTTABLE" | "TAB-INTP" |
            "RAT-FUNC" | "SCALE-RAT-FUNC" | "COMPUCODE",
     "it": "A_INT32" | "A_UINT32" | "A_FLOAT32" | "A_FLOAT64" | <string/bytefield types>,
     "pt": ... same ...,
     "i2p": {"scales": [SCALE, ...], "default": {"vt": text} | {"v": number} | None} | None,
     "p2i": {"scales": [SCALE, ...], "default": {"v": number} | None} | None}

    SCALE = {"lo": LIMIT | None, "hi": LIMIT | None,
             "num": [text, ...] | None, "den": [text, ...] | None,     # COMPU-RATIONAL-COEFFS
             "const": {"v": text} | {"vt": text} | None,                # COMPU-CONST
             "inv": {"v": text} | {"vt": text} | None}                  # COMPU-INVERSE-VALUE
    LIMIT = {"v": text | None, "t": "OPEN" | "CLOSED" | "INFINITE" | None}

Semantics
---------
* limits: CLOSED (or no INTERVAL-TYPE) includes the value, OPEN excludes it, INFINITE or a
  limit without value is unbounded.  A scale without any limit element applies everywhere.
  A scale with exactly one limit *element*: for text tables (generic COMPU-SCALE) it is the
  single point; for linear / rational segments the ODX text can be read either way, the reading is
  selected by ``one_sided`` ("unbounded" | "point") and callers that want to stay neutral
  evaluate both and skip where they differ.
* integer results: the set of nearest integers of the exact value, both neighbours on an exact
  tie, widened by the float-evaluation tolerance (so a float implementation that lands an ulp
  beside a tie is not blamed).
* float results: closed interval exact +- tol with
  tol = GAMMA * (condition magnitude of the formula) + 4 ulp(target width) * |exact|.
* limits / table points of float-typed domains are doubles (Fraction(float(text))): the value
  of an A_FLOAT64 limit *is* a double.  Coefficients are taken as the exact decimal and the
  double-rounding of a coefficient is part of the tolerance.

API:  r = RefCompu(ir);  r.valid_internal(v) -> bool|None;  r.valid_physical(p) -> bool|None
(None: not fixed);  r.i2p(v) / r.p2i(p) -> Res (admissible results) or raise Invalid /
NotInvertible / Unspecified;  r.injective();  r.invertible().
"""
from __future__ import annotations

import math
from fractions import Fraction as F
from typing import Any, List, Optional

INT_TYPES = ("A_INT32", "A_UINT32")
FLOAT_TYPES = ("A_FLOAT32", "A_FLOAT64")
NUM_TYPES = INT_TYPES + FLOAT_TYPES
STR_TYPES = ("A_UNICODE2STRING", "A_ASCIISTRING", "A_UTF8STRING")
BYTE_TYPES = ("A_BYTEFIELD",)

U = F(1, 2**53)
GAMMA = 64 * U                      # generous bound for a handful of double operations
ULP_REL = {"A_FLOAT32": F(1, 2**23), "A_FLOAT64": F(1, 2**52)}


class Invalid(Exception):
    """the value has no conversion (it is not a valid value of the method)"""


class NotInvertible(Exception):
    """the method defines no physical->internal direction"""


class Unspecified(Exception):
    """the property statement / ODX does not fix the result for this input"""


# ---------------------------------------------------------------------------
# numbers
# ---------------------------------------------------------------------------
def is_int(v: Any) -> bool:
    return isinstance(v, int) and not isinstance(v, bool)


def is_num(v: Any) -> bool:
    if isinstance(v, bool):
        return False
    if isinstance(v, int):
        return True
    return isinstance(v, float) and math.isfinite(v)


def parse_int_text(s: str) -> int:
    s = s.strip()
    try:
        return int(s, 0)
    except ValueError:
        f = F(s)
        if f.denominator != 1:
            raise ValueError(f"not an integer: {s!r}")
        return int(f)


def parse_value(s: str, typ: str) -> Any:
    """value of a typed ODX text (limit, table point, inverse value, constant)"""
    if typ in INT_TYPES:
        return F(parse_int_text(s))
    if typ in FLOAT_TYPES:
        return F(float(s))
    if typ in BYTE_TYPES:
        return bytes.fromhex(s)
    return s


def parse_coeff(s: str, typ: str) -> F:
    """exact decimal value of a coefficient text"""
    if typ in INT_TYPES:
        return F(parse_int_text(s))
    return F(s.strip())


def is_dyadic(f: F, max_num_bits: int = 24, max_den_log: int = 16) -> bool:
    d = f.denominator
    return d & (d - 1) == 0 and d <= (1 << max_den_log) and abs(f.numerator) < (1 << max_num_bits)


def admissible(v: Any, typ: str) -> bool:
    """has `v` an admissible Python type for ODX type `typ` (ints are admissible floats)"""
    if typ in INT_TYPES:
        return is_int(v)
    if typ in FLOAT_TYPES:
        return is_num(v)
    if typ in STR_TYPES:
        return isinstance(v, str)
    if typ in BYTE_TYPES:
        return isinstance(v, (bytes, bytearray))
    return False


def nearest_ints(lo: F, hi: F) -> range:
    """all integers n with lo - 1/2 <= n <= hi + 1/2"""
    a = math.ceil(lo - F(1, 2))
    b = math.floor(hi + F(1, 2))
    return range(a, b + 1)


# ---------------------------------------------------------------------------
# results
# ---------------------------------------------------------------------------
class Res:
    """set of admissible results.  kind 'num': union of closed intervals [lo, hi] of exact values,
    each with a tolerance; integer targets admit every integer nearest to a point of an interval.
    kind 'val': a finite list of admissible non-numeric values."""

    def __init__(self, kind: str, typ: str, parts: Optional[list] = None, values: Optional[list] = None):
        self.kind = kind
        self.typ = typ
        self.parts = parts or []      # [(lo, hi, tol)]
        self.values = values or []

    @staticmethod
    def point(x: F, tol: F, typ: str) -> "Res":
        return Res("num", typ, parts=[(x, x, tol)])

    @property
    def integer(self) -> bool:
        return self.typ in INT_TYPES

    def exact(self) -> Optional[F]:
        if self.kind == "num" and len(self.parts) == 1 and self.parts[0][0] == self.parts[0][1]:
            return self.parts[0][0]
        return None

    def int_bounds(self):
        """(smallest, largest) admissible integer"""
        rs = [nearest_ints(lo - tol, hi + tol) for lo, hi, tol in self.parts]
        rs = [r for r in rs if len(r)]
        return (min(r[0] for r in rs), max(r[-1] for r in rs)) if rs else None

    def ints(self, limit: int = 100000) -> List[int]:
        out = set()
        for lo, hi, tol in self.parts:
            r = nearest_ints(lo - tol, hi + tol)
            if len(r) > limit:
                raise OverflowError("too many admissible integers to enumerate")
            out.update(r)
        return sorted(out)

    def strict_ints(self) -> List[int]:
        """nearest integers without the float tolerance (what exact arithmetic allows)"""
        out = set()
        for lo, hi, _tol in self.parts:
            out.update(nearest_ints(lo, hi))
        return sorted(out)

    def admits(self, x: Any) -> bool:
        if self.kind == "val":
            for v in self.values:
                if isinstance(v, (bytes, bytearray)):
                    if isinstance(x, (bytes, bytearray)) and bytes(x) == bytes(v):
                        return True
                elif type(v) is type(x) and v == x:
                    return True
            return False
        if not is_num(x):
            return False
        fx = F(x)
        if self.integer:
            # an integer-typed side yields a Python int ("integer results rounded to nearest"):
            # 2.0 or 2.5 are not results of an integer type
            if not is_int(x):
                return False
            for lo, hi, tol in self.parts:
                if lo - tol - F(1, 2) <= fx <= hi + tol + F(1, 2):
                    return True
            return False
        for lo, hi, tol in self.parts:
            if lo - tol <= fx <= hi + tol:
                return True
        return False

    def describe(self) -> str:
        if self.kind == "val":
            return repr(self.values)
        if self.integer:
            b = self.int_bounds()
            shown = self.ints() if b and b[1] - b[0] < 50 else f"an integer in {b}"
            return f"one of {shown} (exact {[_fmt(lo) if lo == hi else (_fmt(lo), _fmt(hi)) for lo, hi, _ in self.parts]})"
        return " or ".join(
            (f"{_fmt(lo)}" if lo == hi else f"[{_fmt(lo)}, {_fmt(hi)}]") + f" +-{float(tol):.3g}"
            for lo, hi, tol in self.parts)


def _fmt(f: F) -> str:
    return str(f.numerator) if f.denominator == 1 else f"{f.numerator}/{f.denominator}(={float(f)!r})"


TINY = {"A_FLOAT32": F(1, 2**120), "A_FLOAT64": F(1, 2**1000)}   # absolute floor (subnormal results)


def target_tol(x: F, typ: str) -> F:
    if typ in FLOAT_TYPES:
        return 4 * ULP_REL[typ] * abs(x) + TINY[typ]
    return F(0)


# ---------------------------------------------------------------------------
# limits and scales
# ---------------------------------------------------------------------------
class Lim:
    def __init__(self, ir: Optional[dict], typ: str):
        self.present = ir is not None
        self.kind = None
        self.value = None
        if ir is not None:
            self.kind = ir.get("t") or "CLOSED"
            raw = ir.get("v")
            self.value = None if raw is None else parse_value(raw, typ)

    @property
    def bounded(self) -> bool:
        return self.present and self.value is not None and self.kind != "INFINITE"

    def lower_ok(self, v) -> bool:
        if not self.bounded:
            return True
        return v > self.value if self.kind == "OPEN" else v >= self.value

    def upper_ok(self, v) -> bool:
        if not self.bounded:
            return True
        return v < self.value if self.kind == "OPEN" else v <= self.value


def interval_applies(lo: Lim, hi: Lim, v, one_sided: str) -> bool:
    """does the scale [lo, hi] apply to the (exact) value v"""
    if not lo.present and not hi.present:
        return True
    if one_sided == "point":
        if not hi.present:
            return lo.value is not None and v == lo.value
        if not lo.present:
            return hi.value is not None and v == hi.value
    return lo.lower_ok(v) and hi.upper_ok(v)


def one_sided_scale(sc: dict) -> bool:
    return (sc.get("lo") is None) != (sc.get("hi") is None)


def _cmpval(v: Any, typ: str):
    """exact comparable value of a python value of ODX type typ"""
    if typ in NUM_TYPES:
        return F(v)
    if typ in BYTE_TYPES:
        return bytes(v)
    return v


# ---------------------------------------------------------------------------
# segments
# ---------------------------------------------------------------------------
class LinSeg:
    def __init__(self, sc: dict, it: str, pt: str, one_sided: str):
        self.it, self.pt, self.one_sided = it, pt, one_sided
        num = sc.get("num") or []
        den = sc.get("den") or []
        if not num:
            raise ValueError("linear scale without numerators")
        self.off = parse_coeff(num[0], pt)
        self.fac = parse_coeff(num[1], pt) if len(num) > 1 else F(0)
        self.den = parse_coeff(den[0], pt) if den else F(1)
        if self.den == 0:
            raise ValueError("zero denominator")
        self.lo = Lim(sc.get("lo"), it)
        self.hi = Lim(sc.get("hi"), it)
        self.inv = None
        if sc.get("inv") is not None and sc["inv"].get("v") is not None:
            self.inv = parse_value(sc["inv"]["v"], it)
        self.slope = self.fac / self.den
        coeffs = [self.off, self.fac, self.den]
        if pt in INT_TYPES:
            # integer coefficients: numerator is computed exactly, the quotient correctly rounded
            self.exact = True
        else:
            d = abs(self.den)
            self.exact = all(is_dyadic(c) for c in coeffs) and d.numerator & (d.numerator - 1) == 0 \
                and d.denominator & (d.denominator - 1) == 0

    def applies(self, x: F) -> bool:
        return interval_applies(self.lo, self.hi, x, self.one_sided)

    def f(self, x: F) -> F:
        return (self.off + self.fac * x) / self.den

    def f_tol(self, x: F) -> F:
        y = self.f(x)
        return GAMMA * (abs(self.off) + abs(self.fac * x)) / abs(self.den) + target_tol(y, self.pt)

    def finv(self, p: F) -> F:
        return (p * self.den - self.off) / self.fac

    def finv_tol(self, p: F) -> F:
        x = self.finv(p)
        return GAMMA * (abs(p * self.den) + abs(self.off)) / abs(self.fac) + target_tol(x, self.it)

    def hull(self) -> tuple:
        """closure of the exact physical image of the internal interval: (lo|None, hi|None)"""
        a = self.f(self.lo.value) if self.lo.bounded else None
        b = self.f(self.hi.value) if self.hi.bounded else None
        if self.one_sided == "point":
            if self.lo.present and not self.hi.present:
                b = a
            elif self.hi.present and not self.lo.present:
                a = b
        if self.slope < 0:
            a, b = b, a
        if self.slope == 0:
            c = self.off / self.den
            return c, c
        return a, b


class RatSeg:
    def __init__(self, sc: dict, dom: str, rng: str, one_sided: str):
        self.dom, self.rng, self.one_sided = dom, rng, one_sided
        self.num = [parse_coeff(s, rng) for s in (sc.get("num") or [])]
        self.den = [parse_coeff(s, rng) for s in (sc.get("den") or [])]
        if not self.num or not self.den:
            raise ValueError("rational scale needs numerators and denominators")
        self.lo = Lim(sc.get("lo"), dom)
        self.hi = Lim(sc.get("hi"), dom)

    def applies(self, x: F) -> bool:
        return interval_applies(self.lo, self.hi, x, self.one_sided)

    @staticmethod
    def _poly(cs, x):
        r = F(0)
        for c in reversed(cs):
            r = r * x + c
        return r

    def eval(self, x: F) -> tuple:
        n = self._poly(self.num, x)
        d = self._poly(self.den, x)
        nabs = self._poly([abs(c) for c in self.num], abs(x))
        dabs = self._poly([abs(c) for c in self.den], abs(x))
        if d == 0 or GAMMA * dabs * 2 >= abs(d):
            raise Unspecified("pole / ill-conditioned denominator")
        q = n / d
        tol = (GAMMA * nabs + abs(q) * GAMMA * dabs) / (abs(d) - GAMMA * dabs) + 2 * U * abs(q)
        return q, tol + target_tol(q, self.rng)


# ---------------------------------------------------------------------------
# the reference method
# ---------------------------------------------------------------------------
class RefCompu:
    def __init__(self, ir: dict, one_sided: str = "unbounded"):
        self.ir = ir
        self.cat = ir["cat"]
        self.it = ir["it"]
        self.pt = ir["pt"]
        self.one_sided = one_sided
        i2p = ir.get("i2p") or {}
        p2i = ir.get("p2i")
        scales = i2p.get("scales") or []
        self.has_one_sided = False
        c = self.cat
        if c == "IDENTICAL":
            pass
        elif c in ("LINEAR", "SCALE-LINEAR"):
            if c == "LINEAR" and len(scales) != 1:
                raise ValueError("LINEAR needs exactly one scale")
            self.segs = [LinSeg(sc, self.it, self.pt, one_sided) for sc in scales]
            self.has_one_sided = any(one_sided_scale(sc) for sc in scales)
        elif c in ("RAT-FUNC", "SCALE-RAT-FUNC"):
            if c == "RAT-FUNC" and len(scales) != 1:
                raise ValueError("RAT-FUNC needs exactly one scale")
            self.fw = [RatSeg(sc, self.it, self.pt, one_sided) for sc in scales]
            self.bw = None
            if p2i is not None:
                self.bw = [RatSeg(sc, self.pt, self.it, one_sided) for sc in p2i.get("scales") or []]
            self.has_one_sided = any(one_sided_scale(sc) for sc in scales) or \
                any(one_sided_scale(sc) for sc in ((p2i or {}).get("scales") or []))
        elif c == "TAB-INTP":
            self.xs = [parse_value(sc["lo"]["v"], self.it) for sc in scales]
            self.ys = [parse_value(sc["const"]["v"], self.pt) for sc in scales]
            if len(self.xs) < 2 or any(a >= b for a, b in zip(self.xs, self.xs[1:])):
                raise ValueError("TAB-INTP needs >= 2 strictly ascending internal points")
        elif c == "TEXTTABLE":
            self.rows = []
            for sc in scales:
                lo, hi = Lim(sc.get("lo"), self.it), Lim(sc.get("hi"), self.it)
                text = sc["const"].get("vt") if sc.get("const") else None
                inv = None
                if sc.get("inv") is not None and sc["inv"].get("v") is not None:
                    inv = parse_value(sc["inv"]["v"], self.it)
                self.rows.append((lo, hi, text, inv))
            d = i2p.get("default")
            self.default_text = d.get("vt") if d else None
            d2 = (p2i or {}).get("default")
            self.default_internal = parse_value(d2["v"], self.it) if d2 and d2.get("v") is not None else None
        elif c == "COMPUCODE":
            pass
        else:
            raise ValueError(f"unknown category {c}")

    # ---- helpers ---------------------------------------------------------
    def _first_lin(self, x: F) -> Optional[LinSeg]:
        for s in self.segs:
            if s.applies(x):
                return s
        return None

    def _row_applies(self, row, x) -> bool:
        return interval_applies(row[0], row[1], x, "point")

    def _out_value(self, f: F, typ: str):
        return f

    # ---- validity ----------------------------------------------------------
    def valid_internal(self, v: Any) -> Optional[bool]:
        c = self.cat
        if c == "COMPUCODE":
            return False
        if self.it in INT_TYPES and isinstance(v, float):
            return None        # a float offered to an integer type: "admissible" is not fixed
        if not admissible(v, self.it):
            if c == "TEXTTABLE":
                return None    # defaults / unbounded scales cover "everything"; whether that includes wrongly typed values is not fixed
            return False
        if c == "IDENTICAL":
            return True
        x = _cmpval(v, self.it)
        if c in ("LINEAR", "SCALE-LINEAR"):
            return self._first_lin(x) is not None
        if c in ("RAT-FUNC", "SCALE-RAT-FUNC"):
            return any(s.applies(x) for s in self.fw)
        if c == "TAB-INTP":
            return self.xs[0] <= x <= self.xs[-1]
        if c == "TEXTTABLE":
            if any(self._row_applies(r, x) for r in self.rows):
                return True
            return False if self.default_text is None else None
        raise AssertionError(c)

    def valid_physical(self, p: Any) -> Optional[bool]:
        """True / False where the statement fixes it, None otherwise (see module doc)"""
        c = self.cat
        if c == "COMPUCODE":
            return False
        if c == "IDENTICAL":
            return admissible(p, self.pt)
        if c == "TEXTTABLE":
            if not isinstance(p, str):
                return None
            if any(r[2] == p for r in self.rows):
                return True
            return False if self.default_internal is None else None
        if not is_num(p):
            return False if not isinstance(p, bool) else None
        if not admissible(p, self.pt):
            return None            # e.g. 2.0 for an integer physical type: not fixed
        y = F(p)
        if c in ("RAT-FUNC", "SCALE-RAT-FUNC"):
            if self.bw is None:
                return None
            return any(s.applies(y) for s in self.bw)
        if c == "TAB-INTP":
            return None
        # LINEAR / SCALE-LINEAR: p is valid if it is exactly the image of a valid internal value,
        # invalid if every segment's exact preimage is an admissible value outside that segment
        all_outside = True
        injective = self.injective()
        if self.pt in INT_TYPES and self.it not in INT_TYPES:
            all_outside = False        # rounding maps a neighbourhood of internal values onto p
        for s in self.segs:
            if s.slope == 0:
                # a constant scale has no limits on the physical side that the statement would fix
                all_outside = False
                continue
            x = s.finv(y)
            margin = F(0) if s.exact else 4 * s.finv_tol(y)
            if self.it in INT_TYPES and x.denominator != 1:
                all_outside = False
                continue
            if self.pt in INT_TYPES and abs(s.slope) < 1:
                all_outside = False
            near = margin > 0 and any(l.bounded and abs(x - l.value) <= margin for l in (s.lo, s.hi))
            if near:
                all_outside = False
                continue
            if s.applies(x):
                all_outside = False
                if injective and self._first_lin(x) is s:
                    return True
        return False if all_outside else None

    # ---- conversions -----------------------------------------------------------
    def i2p(self, v: Any) -> Res:
        c = self.cat
        if self.valid_internal(v) is False:
            raise Invalid(f"internal value {v!r} is not valid")
        if c == "IDENTICAL":
            if self.pt in NUM_TYPES:
                return Res.point(F(v), F(0), self.pt)
            return Res("val", self.pt, values=[v])
        x = _cmpval(v, self.it)
        if c in ("LINEAR", "SCALE-LINEAR"):
            s = self._first_lin(x)
            return Res.point(s.f(x), s.f_tol(x), self.pt)
        if c in ("RAT-FUNC", "SCALE-RAT-FUNC"):
            for s in self.fw:
                if s.applies(x):
                    q, tol = s.eval(x)
                    return Res.point(q, tol, self.pt)
            raise AssertionError
        if c == "TAB-INTP":
            for k in range(len(self.xs) - 1):
                x0, x1, y0, y1 = self.xs[k], self.xs[k + 1], self.ys[k], self.ys[k + 1]
                if x0 <= x <= x1:
                    y = y0 + (x - x0) * (y1 - y0) / (x1 - x0)
                    tol = GAMMA * (abs(y0) + (abs(x) + abs(x0)) * (abs(y1) + abs(y0)) / (x1 - x0))
                    return Res.point(y, tol + target_tol(y, self.pt), self.pt)
            raise AssertionError
        if c == "TEXTTABLE":
            m = [r for r in self.rows if self._row_applies(r, x)]
            if not m:
                if self.default_text is None:
                    raise Invalid("no scale, no default")
                return Res("val", self.pt, values=[self.default_text])
            if len(m) > 1:
                raise Unspecified("overlapping text-table scales")
            if m[0][2] is None:
                raise Unspecified("scale without text")
            return Res("val", self.pt, values=[m[0][2]])
        raise Invalid("COMPUCODE")

    def invertible(self) -> bool:
        c = self.cat
        if c in ("IDENTICAL", "TAB-INTP", "TEXTTABLE"):
            return True
        if c == "LINEAR":
            s = self.segs[0]
            return s.slope != 0 or s.inv is not None
        if c == "SCALE-LINEAR":
            return self.odx_invertible()
        if c in ("RAT-FUNC", "SCALE-RAT-FUNC"):
            return self.bw is not None
        return False

    def odx_invertible(self) -> bool:
        """ODX 7.3.6.6.4: adjacent scales meet at a common boundary with the same value and all
        slopes have the same sign (or are zero, then COMPU-INVERSE-VALUE is needed)"""
        segs = self.segs
        sign = 0
        for s in segs:
            if s.slope != 0:
                sg = 1 if s.slope > 0 else -1
                if sign and sg != sign:
                    return False
                sign = sg
            elif s.inv is None:
                return False
        for a, b in zip(segs, segs[1:]):
            if not (a.hi.bounded and b.lo.bounded):
                return False
            if a.hi.value != b.lo.value:
                return False
            if a.f(a.hi.value) != b.f(b.lo.value):
                return False
        return True

    def monotone_continuous(self) -> bool:
        return self.cat == "SCALE-LINEAR" and self.odx_invertible()

    def p2i(self, p: Any) -> Res:
        c = self.cat
        if c == "COMPUCODE":
            raise Invalid("COMPUCODE")
        if c == "IDENTICAL":
            if not admissible(p, self.pt):
                raise Invalid("type")
            if self.it in NUM_TYPES:
                return Res.point(F(p), F(0), self.it)
            return Res("val", self.it, values=[p])
        if c == "TEXTTABLE":
            m = [r for r in self.rows if r[2] == p]
            if not m:
                if self.default_internal is None:
                    raise Invalid("unknown text, no default")
                return Res.point(self.default_internal, F(0), self.it)
            if len(m) > 1:
                raise Unspecified("text names several scales")
            lo, hi, _t, inv = m[0]
            for cand in (inv, lo.value, hi.value):
                if cand is not None:
                    return Res.point(cand, F(0), self.it)
            raise Unspecified("scale without any value")
        if not is_num(p):
            raise Invalid("type")
        y = F(p)
        if c in ("RAT-FUNC", "SCALE-RAT-FUNC"):
            if self.bw is None:
                raise NotInvertible()
            for s in self.bw:
                if s.applies(y):
                    q, tol = s.eval(y)
                    return Res.point(q, tol, self.it)
            raise Invalid("outside the inverse scales")
        if c == "TAB-INTP":
            parts = []
            for k in range(len(self.xs) - 1):
                x0, x1, y0, y1 = self.xs[k], self.xs[k + 1], self.ys[k], self.ys[k + 1]
                if min(y0, y1) <= y <= max(y0, y1):
                    if y0 == y1:
                        parts.append((x0, x1, F(0)))
                    else:
                        x = x0 + (y - y0) * (x1 - x0) / (y1 - y0)
                        tol = GAMMA * (abs(x0) + (abs(y) + abs(y0)) * (abs(x1) + abs(x0)) / abs(y1 - y0))
                        parts.append((x, x, tol + target_tol(x, self.it)))
            if not parts:
                raise Invalid("outside the table")
            return Res("num", self.it, parts=parts)
        # LINEAR / SCALE-LINEAR
        if not self.invertible():
            raise NotInvertible()
        parts = []
        widen = F(1, 2) if self.pt in INT_TYPES else F(0)
        for s in self.segs:
            a, b = s.hull()
            tol_p = s.f_tol(s.lo.value if s.lo.bounded else F(0)) + s.f_tol(s.hi.value if s.hi.bounded else F(0))
            if a is not None and y < a - widen - tol_p:
                continue
            if b is not None and y > b + widen + tol_p:
                continue
            if s.slope == 0:
                if s.inv is None:
                    raise Unspecified("zero slope without COMPU-INVERSE-VALUE")
                parts.append((s.inv, s.inv, F(0)))
            else:
                x = s.finv(y)
                parts.append((x, x, s.finv_tol(y)))
        if not parts:
            raise Invalid("outside the physical range")
        return Res("num", self.it, parts=parts)

    # ---- injectivity in the sense of the property statement ------------------
    def injective(self) -> bool:
        """'a real-valued physical type, or an integer physical type with slopes of magnitude at
        least one' and the transfer function is strictly monotone (piecewise-linear kinds only;
        rational and text methods are judged point-wise by roundtrip_exact)"""
        c = self.cat
        if c == "IDENTICAL":
            return True
        if c in ("LINEAR", "SCALE-LINEAR"):
            if any(s.slope == 0 for s in self.segs):
                return False
            if len(self.segs) > 1 and not self.odx_invertible():
                return False
            if self.pt in FLOAT_TYPES:
                return True
            return self.it in INT_TYPES and all(abs(s.slope) >= 1 for s in self.segs)
        if c == "TAB-INTP":
            d = [b - a for a, b in zip(self.ys, self.ys[1:])]
            if not (all(x > 0 for x in d) or all(x < 0 for x in d)):
                return False
            if self.pt in FLOAT_TYPES:
                return True
            return self.it in INT_TYPES and all(
                abs((y1 - y0) / (x1 - x0)) >= 1
                for x0, x1, y0, y1 in zip(self.xs, self.xs[1:], self.ys, self.ys[1:]))
        return False

    def roundtrip_exact(self, v: Any) -> bool:
        """may p2i(i2p(v)) == v be demanded for the valid internal value v"""
        c = self.cat
        if c in ("IDENTICAL", "LINEAR", "SCALE-LINEAR", "TAB-INTP"):
            return self.injective()
        try:
            r = self.i2p(v)
        except (Invalid, Unspecified):
            return False
        if c == "TEXTTABLE":
            try:
                back = self.p2i(r.values[0])
            except (Invalid, Unspecified):
                return False
            m = [row for row in self.rows if self._row_applies(row, F(v))]
            single = len(m) == 1 and (
                (m[0][0].present and not m[0][1].present) or (m[0][1].present and not m[0][0].present) or
                (m[0][0].bounded and m[0][1].bounded and m[0][0].value == m[0][1].value))
            return single and back.exact() == F(v)
        if c in ("RAT-FUNC", "SCALE-RAT-FUNC"):
            if self.bw is None:
                return False
            if not (self.pt in FLOAT_TYPES):
                return False
            e = r.exact()
            try:
                back = self.p2i_exact_fraction(e)
            except (Invalid, Unspecified, NotInvertible):
                return False
            return back == F(v)
        return False

    def p2i_exact_fraction(self, y: F) -> F:
        """exact inverse-scale value of an exact physical value (rational kinds only)"""
        for s in self.bw:
            if s.applies(y):
                q, _tol = s.eval(y)
                return q
        raise Invalid("outside the inverse scales")


def neutral(ir: dict):
    """(ref_unbounded, ref_point): the two readings of one-sided limit elements; identical
    object twice when the method has no such scale"""
    a = RefCompu(ir, "unbounded")
    if not a.has_one_sided:
        return a, a
    return a, RefCompu(ir, "point")
