"""Runner: ./check <ID> quick|thorough [--replay PATH]

Contract (DESIGN 1.2): exit 0 = held on everything explored (possibly with
KNOWN-FINDING lines); exit 1 = at least one "VIOLATION property=<ID> replay=<path>"
line; exit 2 = harness error / inconclusive, never a VIOLATION line.

A check module (vlib/checks/cNN.py) provides

    PROPERTY, RULE, ASSUMPTIONS, MUST_HIT (optional list of class names)
    shards(tier) -> list of picklable shard specs
    run_shard(spec, seed, tier) -> vlib.core.ShardResult
    replay(case) -> list[vlib.core.Failure]     (plain re-execution, no Hypothesis)
"""
from __future__ import annotations

import hashlib
import importlib
import json
import multiprocessing as mp
import os
import sys
import time
import traceback
from collections import Counter
from pathlib import Path

ROOT = Path(__file__).resolve().parent.parent


def derive_seed(seed: int, prop: str, shard: object) -> int:
    h = hashlib.sha256(f"{seed}|{prop}|{shard!r}".encode()).digest()
    return int.from_bytes(h[:8], "big") >> 1


def _shard_entry(args):
    modname, idx, spec, seed, tier = args
    from vlib import core
    mod = importlib.import_module(modname)
    t0 = time.monotonic()
    try:
        res = mod.run_shard(spec, seed, tier)
        res.wall_s = time.monotonic() - t0
        return idx, res, None
    except core.Inconclusive as e:
        return idx, None, ("inconclusive", str(e))
    except BaseException:  # harness error inside a shard
        return idx, None, ("error", traceback.format_exc())


def main(argv: list[str]) -> int:
    from vlib import core, known

    if len(argv) < 1:
        print("usage: check <ID> quick|thorough [--replay PATH]", file=sys.stderr)
        return 2
    prop = argv[0].upper()
    tier = os.environ.get("VERIF_TIER", "quick")
    replay_path = None
    rest = argv[1:]
    while rest:
        a = rest.pop(0)
        if a in ("quick", "thorough"):
            tier = a
        elif a == "--replay":
            replay_path = rest.pop(0)
        else:
            print(f"harness error: unknown argument {a}", file=sys.stderr)
            return 2
    if tier not in ("quick", "thorough"):
        tier = "quick"
    try:
        seed = int(os.environ.get("VERIF_SEED", "1"))
    except ValueError:
        seed = 1
    modname = f"vlib.checks.{prop.lower()}"
    try:
        mod = importlib.import_module(modname)
    except ModuleNotFoundError as e:
        print(f"harness error: no check module for {prop}: {e}", file=sys.stderr)
        return 2

    kf = known.load(prop)

    # ---- single replay ------------------------------------------------
    if replay_path is not None:
        case = json.loads(Path(replay_path).read_text())
        case = case.get("case", case) if isinstance(case, dict) and "case" in case else case
        fails = mod.replay(case)
        new = [f for f in fails if known.match(kf, f) is None]
        for f in fails:
            k = known.match(kf, f)
            if k is not None:
                print(f"KNOWN-FINDING: property={prop} {k['what']}")
        if new:
            for f in new:
                print(f"  clause={f.clause} detail={f.detail}")
            print(f"VIOLATION property={prop} replay={replay_path}")
            return 1
        print(f"replay of {replay_path}: property {prop} holds on this case")
        return 0

    t_start = time.monotonic()
    merged = core.ShardResult()
    violations: list[core.Failure] = []
    known_hits: Counter = Counter()
    known_witness_ok: set[str] = set()

    # ---- stage 1: corpus replay ---------------------------------------
    corpus_dir = ROOT / "corpus" / prop
    n_corpus = 0
    if corpus_dir.is_dir():
        for p in sorted(corpus_dir.glob("*.json")):
            doc = json.loads(p.read_text())
            case = doc["case"] if isinstance(doc, dict) and "case" in doc else doc
            n_corpus += 1
            fails = mod.replay(case)
            merged.evaluations += 1
            for f in fails:
                k = known.match(kf, f)
                if k is not None:
                    known_hits[k["id"]] += 1
                    known_witness_ok.add(k["id"])
                else:
                    f.origin = f"corpus:{p.name}"
                    violations.append(f)
    merged.stages["replay"] = n_corpus

    # ---- stage 2/3: shards --------------------------------------------
    specs = list(mod.shards(tier))
    jobs = [(modname, i, s, derive_seed(seed, prop, i), tier) for i, s in enumerate(specs)]
    nproc = int(os.environ.get("VERIF_JOBS", "0")) or min(16, os.cpu_count() or 4)
    results = []
    harness_errors = []
    if jobs:
        if nproc == 1 or len(jobs) == 1:
            it = map(_shard_entry, jobs)
            results = list(it)
        else:
            ctx = mp.get_context("fork")
            with ctx.Pool(min(nproc, len(jobs))) as pool:
                results = list(pool.imap_unordered(_shard_entry, jobs, chunksize=1))
    results.sort(key=lambda r: r[0])
    for idx, res, err in results:
        if err is not None:
            harness_errors.append((idx, err))
            continue
        merged.merge(res)
        for f in res.failures:
            k = known.match(kf, f)
            if k is not None:
                known_hits[k["id"]] += 1
            else:
                f.origin = f"shard:{idx}"
                violations.append(f)
        for kid, n in res.known_hits.items():
            known_hits[kid] += n

    wall = time.monotonic() - t_start

    # ---- report --------------------------------------------------------
    rc = 0
    # de-duplicate violations by bucket (clause + feature key): one replay file per root cause
    by_bucket: dict[str, core.Failure] = {}
    for f in violations:
        b = f.bucket()
        cur = by_bucket.get(b)
        if cur is None or len(core.canon(f.case)) < len(core.canon(cur.case)):
            by_bucket[b] = f
    rep_dir = ROOT / "replays" / prop
    lines = []
    for b, f in sorted(by_bucket.items()):
        rep_dir.mkdir(parents=True, exist_ok=True)
        body = {"property": prop, "clause": f.clause, "detail": f.detail, "features": f.features,
                "origin": f.origin, "case": f.case}
        sha = hashlib.sha1(core.canon(f.case).encode()).hexdigest()[:16]
        path = rep_dir / f"{sha}.json"
        path.write_text(json.dumps(body, indent=1, sort_keys=True, default=core.jdefault))
        print(f"  violation bucket={b} clause={f.clause} detail={str(f.detail)[:300]}")
        lines.append(f"VIOLATION property={prop} replay={path.relative_to(ROOT)}")

    for k in kf:
        if k.get("status") == "known" and (known_hits.get(k["id"], 0) > 0):
            print(f"KNOWN-FINDING: property={prop} {k['what']}")

    inconclusive = []
    for name in getattr(mod, "MUST_HIT", []) or []:
        if merged.classes.get(name, 0) == 0:
            inconclusive.append(f"must-hit class {name!r} never generated")
    if merged.evaluations < 1 or len(merged.digests) < 2:
        inconclusive.append("fewer than 2 distinct non-trivial cases")

    evidence = {
        "property_id": prop,
        "tier": tier,
        "seed": seed,
        "level": "exploration",
        "wall_s": round(wall, 3),
        "violations": len(by_bucket),
        "assumptions": list(getattr(mod, "ASSUMPTIONS", [])),
        "coverage": {
            "evaluations": int(merged.evaluations),
            "distinct_nontrivial": len(merged.digests),
            "rule": getattr(mod, "RULE", ""),
            "samples": merged.samples[:12] if merged.samples else [],
            "classes": dict(sorted(merged.classes.items())),
            "accepted": int(merged.accepted),
            "rejected": int(merged.rejected),
            "known_findings": {k: int(v) for k, v in sorted(known_hits.items())},
            "exhaustive_subspaces": sorted(set(merged.exhaustive_subspaces)),
            "exhaustive": False,
            "stages": dict(merged.stages),
            "shards": len(jobs),
            "harness_errors": len(harness_errors),
            "inconclusive": inconclusive,
        },
    }
    ev_path = ROOT / "evidence" / f"{prop}.json"
    ev_path.parent.mkdir(exist_ok=True)
    ev_path.write_text(json.dumps(evidence, indent=1, sort_keys=True, default=core.jdefault))
    try:
        import jsonschema
        schema = json.loads((ROOT / "vlib" / "schemas" / "EVIDENCE.schema.json").read_text())
        jsonschema.validate(json.loads(ev_path.read_text()), schema)
    except ImportError:
        pass
    except Exception as e:  # evidence invalid -> harness problem
        print(f"harness error: evidence does not validate: {e}", file=sys.stderr)
        if not lines:
            return 2

    print(f"{prop} {tier} seed={seed}: evaluations={merged.evaluations} "
          f"distinct_nontrivial={len(merged.digests)} violations={len(by_bucket)} "
          f"known_hits={sum(known_hits.values())} wall={wall:.1f}s")
    if lines:
        for ln in lines:
            print(ln)
        return 1
    if harness_errors:
        for idx, (kind, msg) in harness_errors:
            print(f"harness {kind} in shard {idx}:\n{msg}", file=sys.stderr)
        return 2
    if inconclusive:
        for m in inconclusive:
            print(f"inconclusive: {m}", file=sys.stderr)
        return 2
    return rc


if __name__ == "__main__":
    try:
        code = main(sys.argv[1:])
    except SystemExit:
        raise
    except BaseException:
        traceback.print_exc()
        code = 2
    sys.stdout.flush()
    sys.exit(code)
