"""Known-finding predicates (DESIGN 1.7).  known_findings.json lists recorded genuine
defects; an entry with status "known" names a predicate defined here.  A predicate
is deliberately narrow: clause + failure mode + minimal structural feature.  The
file is never written at run time."""
from __future__ import annotations

import json
from pathlib import Path

ROOT = Path(__file__).resolve().parent.parent

PREDICATES = {}


def predicate(name):
    def deco(fn):
        PREDICATES[name] = fn
        return fn
    return deco


def load(prop: str) -> list[dict]:
    p = ROOT / "known_findings.json"
    if not p.exists():
        return []
    doc = json.loads(p.read_text())
    out = []
    for e in doc.get("findings", []):
        if e.get("property") == prop and e.get("status") == "known":
            if e.get("predicate") not in PREDICATES:
                raise RuntimeError(f"known finding {e.get('id')} names unknown predicate {e.get('predicate')}")
            out.append(e)
    return out


def match(kf: list[dict], failure) -> dict | None:
    for e in kf:
        if PREDICATES[e["predicate"]](failure):
            return e
    return None


# ---------------------------------------------------------------------------
# predicates are added below, next to the finding they describe
# ---------------------------------------------------------------------------
