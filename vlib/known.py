"""Known-finding predicates (DESIGN 1.7).  known_findings.json lists recorded genuine
defects; an entry with status "known" names a predicate defined here.  A predicate
is deliberately narrow: clause + failure mode + minimal structural feature.  The
file is never written at run time."""
from __future__ import annotations

import json
from pathlib import Path

ROOT = Path(__file__).resolve().parent.parent

PREDICATES = {}


def predicate(name):
    def deco(fn):
        PREDICATES[name] = fn
        return fn
    return deco


def load(prop: str) -> list[dict]:
    p = ROOT / "known_findings.json"
    if not p.exists():
        return []
    doc = json.loads(p.read_text())
    out = []
    for e in doc.get("findings", []):
        if e.get("property") == prop and e.get("status") == "known":
            if e.get("predicate") not in PREDICATES:
                raise RuntimeError(f"known finding {e.get('id')} names unknown predicate {e.get('predicate')}")
            out.append(e)
    return out


def match(kf: list[dict], failure) -> dict | None:
    for e in kf:
        if PREDICATES[e["predicate"]](failure):
            return e
    return None


# ---------------------------------------------------------------------------
# predicates are added below, next to the finding they describe
# ---------------------------------------------------------------------------


# ---- C12 / C13: odxtools/isotp_state_machine.py ---------------------------------------------
@predicate("c12_fd_single_frame_escape")
def c12_fd_single_frame_escape(f) -> bool:
    """CAN-FD single frame (> 8 bytes, PCI byte 0x00, length in byte 1) is reported as an empty telegram;
    the check assigns this bucket only if the reported lists equal the transmitted ones with exactly
    these telegrams replaced by b''."""
    return f.clause == "telegrams" and f.features.get("bucket") == "fd-sf-escape"


@predicate("c13_short_frame_bitstruct_error")
def c13_short_frame_bitstruct_error(f) -> bool:
    """bitstruct.Error for a frame too short for its PCI: empty frame, or first frame of one byte"""
    return (f.clause == "no-raise" and f.features.get("exc") == "Error" and f.features.get("short") is True
            and f.features.get("kind") in ("empty", "ff") and f.features.get("monitored") is True)


@predicate("c13_cf_without_first_frame")
def c13_cf_without_first_frame(f) -> bool:
    """AssertionError for a consecutive frame on an id that has not seen any (well-formed) first frame yet"""
    return (f.clause == "no-raise" and f.features.get("exc") == "AssertionError" and f.features.get("kind") == "cf"
            and f.features.get("no_first_frame") is True and f.features.get("short") is False)


@predicate("c13_telegram_reported_twice")
def c13_telegram_reported_twice(f) -> bool:
    """a consecutive frame with the next sequence number after completion re-reports the finished telegram"""
    return f.clause == "at-most-once" and f.features.get("kind") == "cf" and f.features.get("bucket") == "twice:cf"


# ---- C18 (comparison / listing tools) ----------------------------------------------------------
_C18_NOTHING = {"new": [], "deleted": [], "renamed": [], "changed": []}


@predicate("c18_rename_reported_as_nothing")
def _c18_rename_reported_as_nothing(f):
    """cli/compare.py: the rename branch is an `elif` with the same condition as the `if` before it,
    so a renamed service (same request prefix, new short name) is reported in none of the lists"""
    return (f.clause == "classification" and f.features.get("edit") == "rename" and
            f.features.get("via") in ("db", "dl") and f.features.get("observed") == _C18_NOTHING)


@predicate("c18_delete_only_service_reported_as_nothing")
def _c18_delete_only_service(f):
    """cli/compare.py: deleted services are searched inside the loop over the services of the new
    layer, so nothing is reported when the new layer has no service left"""
    return (f.clause == "classification" and f.features.get("edit") == "delete" and
            f.features.get("new_layer_services") == 0 and f.features.get("observed") == _C18_NOTHING)


@predicate("c18_comparam_count_always_zero")
def _c18_comparam_count_zero(f):
    """cli/_print_utils.py: print_dl_metrics reads the misspelt attribute `comparams_refs`"""
    return (f.clause == "metrics-comparams" and f.features.get("observed") == "0" and
            (f.features.get("expected") or 0) > 0)


@predicate("c18_service_tables_without_rows")
def _c18_service_tables_without_rows(f):
    """cli/_print_utils.py: extract_service_tabulation_data only adds rows when additional columns
    are given, so the tables of new / deleted / renamed services are printed empty"""
    rows = f.features.get("plain_table_rows")
    return (f.clause == "display" and f.features.get("list") in ("new", "deleted", "renamed") and
            bool(rows) and all(r == 0 for r in rows))


# --- C06 (dispatch of messages to services) ---------------------------------
@predicate("c06_failing_candidate_aborts")
def c06_failing_candidate_aborts(f):
    """DiagLayer.decode/decode_response raise DecodeError although a service matches exactly,
    and the reference sees another candidate (service or sibling coding object) on the lookup
    path that cannot take the message"""
    return (f.clause in ("raised-despite-must", "response-via-request")
            and f.features.get("exc") == "DecodeError" and f.features.get("cause") == "blocker"
            and bool(f.features.get("blockers")))


@predicate("c06_empty_prefix_never_found")
def c06_empty_prefix_never_found(f):
    """an exactly matching service is not reported (or DecodeError is raised) and every coding
    object under which it matches has an empty constant prefix"""
    if f.features.get("cause") != "empty-prefix":
        return False
    if f.clause == "missing-must":
        return True
    return f.clause in ("raised-despite-must", "response-via-request") and \
        f.features.get("exc", "DecodeError") == "DecodeError"


@predicate("c06_servicebinner_sid_encoding")
def c06_servicebinner_sid_encoding(f):
    """service_groups files a service under the wrong SID when the first constant is a
    little-endian 16 bit constant or the low part of a sub-byte pair"""
    return f.clause == "service-groups" and f.features.get("first_const") in ("cc16lh", "subbyte-lowfirst")


@predicate("c06_partial_mrp_encodeerror")
def c06_partial_mrp_encodeerror(f):
    """EncodeError out of decode()/decode_response() on a layer with a MATCHING-REQUEST-PARAM that is
    only partly covered by the constant prefix of the request"""
    return (f.clause in ("raised-despite-must", "foreign-exception", "response-via-request")
            and f.features.get("exc") == "EncodeError" and f.features.get("partial_mrp") is True)


@predicate("c06_gnr_mrp_unbound")
def c06_gnr_mrp_unbound(f):
    """a service is reported through a global negative response whose MATCHING-REQUEST-PARAM
    does not fit the constant prefix of that service's request"""
    return (f.clause in ("extra-mustnot", "wrong-coding-object", "no-raise-when-unmatched")
            and f.features.get("cause") == "gnr-mrp-unbound")


# ---- C10 ---------------------------------------------------------------------
@predicate("c10_import_leak")
def c10_import_leak(f) -> bool:
    """an unresolvable ID reference was accepted and bound to an object which only ANOTHER
    layer imports (IMPORT-REF), looked up in that other layer's fragment or its container's
    fragment: the shallow copy in DiagLayer._resolve_odxlinks leaked the imported ids"""
    return f.clause == "must-raise" and f.features.get("leak") is True and \
        f.features.get("why") in ("id-not-visible", "id-not-in-docref-fragment")


@predicate("c10_duplicate_local_short_names")
def c10_duplicate_local_short_names(f) -> bool:
    """a short-name reference to a name carried by several objects of the referring layer
    (not an ECU-SHARED-DATA) was accepted and bound to one of them"""
    ft = f.features
    return f.clause == "must-raise" and ft.get("why") == "ambiguous-local-name" and \
        ft.get("layer_type") not in (None, "ECU-SHARED-DATA") and ft.get("bound") in (ft.get("candidates") or [])


# ---------------------------------------------------------------------------
# C15 — communication parameters.  The check labels a failing lookup / accessor with the smallest set
# of recorded defects whose emulation in the reference model reproduces exactly the observed outcome
# (features["explained_by"]); anything not reproduced that way has explained_by None and is reported.
# ---------------------------------------------------------------------------
@predicate("c15_generic_before_specific")
def _c15_generic_before_specific(f):
    """hierarchyelement.get_comparam(name, protocol=P): the unqualified COMPARAM-REF is returned although
    one qualified with P is effective, because it comes first in comparam_refs"""
    return (f.clause in ("get-comparam", "accessor") and
            "generic-first" in (f.features.get("explained_by") or []))


@predicate("c15_accessor_ignores_default")
def _c15_accessor_ignores_default(f):
    """get_can_baudrate / get_can_fd_baudrate / get_max_can_payload_size / uses_can_fd read
    ComparamInstance.value instead of get_value(): empty value -> int('') / 8 / None instead of the default"""
    return (f.clause == "accessor" and
            f.features.get("accessor") in ("get_can_baudrate", "get_can_fd_baudrate", "get_max_can_payload_size") and
            "raw-value" in (f.features.get("explained_by") or []))


@predicate("c15_empty_subvalue_no_default")
def _c15_empty_subvalue_no_default(f):
    """ComparamInstance.get_subvalue: an empty SIMPLE-VALUE inside COMPLEX-VALUE is parsed as '' and returned
    as such (the default fallback only triggers for None), typed accessors then raise ValueError from int('')"""
    if "empty-subvalue" not in (f.features.get("explained_by") or []):
        return False
    if f.clause == "subvalue":
        return f.features.get("default") is True and f.features.get("got") == ""
    return f.clause == "accessor"


# ---- C14 -------------------------------------------------------------------
@predicate("c14_cache_bytearray_key")
def c14_cache_bytearray_key(f):
    """cache on: the bytearray returned by DiagService.encode_request() is used as dict key"""
    return (f.clause == "exception" and f.features.get("bucket") == "cache-bytearray-key"
            and f.features.get("cache") is True and f.features.get("exc") == "TypeError"
            and "unhashable type: 'bytearray'" in str(f.features.get("msg")))


@predicate("c14_coded_const_mismatch_decoded")
def c14_coded_const_mismatch_decoded(f):
    """the reported candidate differs from the reference, and is exactly the candidate the reference
    reports when responses are (wrongly) allowed to decode answers whose coded constants mismatch"""
    return (f.clause == "outcome" and f.features.get("bucket") == "coded-const-mismatch-decoded"
            and f.features.get("lenient_explains") is True)


# ---- C07 (compu methods, odxtools/compumethods/*) ---------------------------------------------
_C07_LINEAR = ("LINEAR", "SCALE-LINEAR")
_C07_VALUE_CLAUSES = ("i2p-value", "p2i-value", "roundtrip-value", "dop-decode", "dop-encode")


@predicate("c07_scalelinear_invertibility_inverted")
def c07_scalelinear_invertibility_inverted(f) -> bool:
    """scalelinearcompumethod.py: `abs(y0 - y1) < 1e-10` marks *continuous* methods as non-invertible, so a
    method that fulfils the ODX invertibility rule refuses to encode with the 'non-invertible' EncodeError"""
    ft = f.features
    return (ft.get("cat") == "SCALE-LINEAR" and f.clause in ("valid-converts", "roundtrip-raises")
            and ft.get("exc") == "EncodeError" and "non-invertible SCALE-LINEAR" in (ft.get("exc_msg") or "")
            and ft.get("odx_invertible") is True and (ft.get("nscales") or 0) >= 2)


@predicate("c07_scalelinear_valid_physical_noninvertible")
def c07_scalelinear_valid_physical_noninvertible(f) -> bool:
    """scalelinearcompumethod.py: is_valid_physical_value ignores the invertibility analysis: values of a
    method that does NOT fulfil the ODX invertibility rule are declared valid, converting raises"""
    ft = f.features
    return (ft.get("cat") == "SCALE-LINEAR" and f.clause == "valid-converts" and ft.get("exc") == "EncodeError"
            and "non-invertible SCALE-LINEAR" in (ft.get("exc_msg") or "") and ft.get("odx_invertible") is False)


@predicate("c07_linear_negative_denominator")
def c07_linear_negative_denominator(f) -> bool:
    """linearsegment.py: physical limits are swapped according to the sign of the factor instead of the
    sign of factor/denominator; only methods with a negative denominator and non-zero factor"""
    ft = f.features
    return (ft.get("cat") in _C07_LINEAR and ft.get("neg_den") is True and
            f.clause in ("image-valid", "valid-physical", "mc-encode", "roundtrip-raises", "valid-converts",
                         "p2i-value", "roundtrip-value", "dop-encode"))


@predicate("c07_constant_scale_open_limit")
def c07_constant_scale_open_limit(f) -> bool:
    """linearsegment.py: a constant scale (factor 0) with an OPEN internal limit gets an empty physical
    interval; its constant cannot be encoded although the method is monotone and continuous"""
    ft = f.features
    return (ft.get("cat") == "SCALE-LINEAR" and f.clause == "mc-encode" and ft.get("mode") == "declared-False"
            and ft.get("p_is_const_of_open_scale") is True)


@predicate("c07_tabintp_truncation")
def c07_tabintp_truncation(f) -> bool:
    """tabintpcompumethod.py: integer results are produced with int() (cut off) instead of rounding"""
    ft = f.features
    return ft.get("cat") == "TAB-INTP" and f.clause in _C07_VALUE_CLAUSES and ft.get("mode") == "truncated"


@predicate("c07_tabintp_descending_inverse")
def c07_tabintp_descending_inverse(f) -> bool:
    """tabintpcompumethod.py: the interpolation only looks at ascending sample intervals: physical values
    that lie in no ascending interval of the table cannot be encoded (EncodeError), a value on a
    constant interval divides by zero"""
    ft = f.features
    if ft.get("cat") != "TAB-INTP" or f.clause not in ("valid-converts", "roundtrip-raises", "dop-encode"):
        return False
    if ft.get("exc") == "EncodeError":
        return ft.get("in_ascending_interval") is False or (
            f.clause == "roundtrip-raises" and ft.get("tab_shape") == "descending")
    if ft.get("exc") == "ZeroDivisionError":
        return ft.get("on_flat_interval") is True or (
            f.clause == "roundtrip-raises" and ft.get("tab_shape") == "flat")
    return False


@predicate("c07_texttable_default_direction")
def c07_texttable_default_direction(f) -> bool:
    """texttablecompumethod.py: is_valid_internal_value looks at the default of the physical->internal
    direction and is_valid_physical_value at the default text of the internal->physical direction"""
    ft = f.features
    if ft.get("cat") != "TEXTTABLE":
        return False
    i2p, p2i = ft.get("default_i2p"), ft.get("default_p2i")
    if f.clause == "valid-internal":
        return ft.get("mode") == "declared-True" and p2i is True and i2p is False
    if f.clause == "valid-physical":
        return ft.get("mode") == "declared-True" and i2p is True and p2i is False
    if f.clause == "valid-converts":
        return ft.get("exc") == "EncodeError" and i2p is True and p2i is False
    return False


@predicate("c07_ratfunc_domain_type")
def c07_ratfunc_domain_type(f) -> bool:
    """ratfuncsegment.py: applies() type-checks the argument against the type of the result: float
    arguments are rejected when the other side's type is integral"""
    ft = f.features
    if ft.get("cat") not in ("RAT-FUNC", "SCALE-RAT-FUNC"):
        return False
    if f.clause == "valid-internal":
        return (ft.get("mode") == "declared-False" and ft.get("it") == "float" and ft.get("pt") == "int"
                and ft.get("value_float") is True)
    if f.clause == "valid-physical":
        return (ft.get("mode") == "declared-False" and ft.get("it") == "int" and ft.get("pt") == "float"
                and ft.get("value_float") is True)
    if f.clause == "image-valid":
        return ft.get("it") == "int" and ft.get("pt") == "float" and ft.get("image_float") is True
    return False


@predicate("c07_linear_tie_open_limit")
def c07_linear_tie_open_limit(f) -> bool:
    """linearsegment.py: round() rounds halves to even, so with slope +-1 and a half-integral offset the
    image of an OPEN integer limit and the image of its valid neighbour coincide; the neighbour's image is
    declared invalid"""
    ft = f.features
    return (ft.get("cat") in _C07_LINEAR and f.clause == "image-valid" and ft.get("mode") == "tie"
            and ft.get("it") == "int" and ft.get("pt") == "int")



def _strip_cond(o):
    if isinstance(o, dict):
        return {k: (False if k == "cond" else _strip_cond(v)) for k, v in o.items()}
    if isinstance(o, list):
        return [_strip_cond(v) for v in o]
    return o


@predicate("c08_condensed_mask_static_length")
def c08_condensed_mask_static_length(f) -> bool:
    """standardlengthtype.py: get_static_bit_length() of a condensed BIT-MASK is the number of set mask bits,
    the encoder/decoder use BIT-LENGTH bits on the wire (both behaviours are pinned by tests/test_encoding.py::
    test_condensed_bit_mask).  Counterfactual predicate: the static-length failure must disappear when
    IS-CONDENSED is removed from the case."""
    if f.clause not in ("message-static-length", "object-static-length", "structure-static-length"):
        return False
    from vlib import core
    if '"cond":true' not in core.canon(f.case):
        return False
    from vlib.checks import c08
    return not c08.eval_case(_strip_cond(core.plain(f.case)))


# ---------------------------------------------------------------------------
# C11 — PDX write -> load round trip.  One predicate per root cause (= per pending fix).
# A failure carries: clause, features.bucket ("<Class.field>|<mode>"), key, mode, where (XML
# context of a parse error), path (Class.field chain of a structural difference), perturbed.
# ---------------------------------------------------------------------------
_C11_PARAM_CLASSES = ("CodedConstParameter", "DynamicParameter", "LengthKeyParameter",
                      "MatchingRequestParameter", "NrcConstParameter", "PhysicalConstantParameter",
                      "ReservedParameter", "SystemParameter", "TableEntryParameter", "TableKeyParameter",
                      "TableStructParameter", "ValueParameter")
_C11_LAYER_RAWS = ("ProtocolRaw", "FunctionalGroupRaw", "BaseVariantRaw", "EcuVariantRaw", "EcuSharedDataRaw")
# attributes that the templates emit through make_xml_attrib (verified against templates/macros)
_C11_ATTRIB_KEYS = frozenset(
    [f"{c}.oid" for c in (
        "AdditionalAudience", "CompanyData", "Comparam", "ComparamSpec", "ComparamSubset", "ComplexComparam",
        "DataObjectProperty", "DiagLayerContainer", "DiagService", "FunctionalClass", "PhysicalDimension",
        "ProtStack", "Request", "Response", "SingleEcuJob", "Structure", "Table", "TableRow", "TeamMember",
        "Unit", "UnitGroup") + _C11_PARAM_CLASSES + _C11_LAYER_RAWS]
    + [f"{c}.semantic" for c in ("DiagService", "SingleEcuJob", "Table", "TableRow") + _C11_PARAM_CLASSES]
    + ["Description.text_identifier", "ComparamSubset.category"])


def _c11(f, clause, mode=None):
    return f.clause == clause and (mode is None or f.features.get("mode") == mode)


def _c11_bucket_in(f, clause, buckets):
    return f.clause == clause and f.features.get("bucket") in buckets


@predicate("c11_xml_attrib_unescaped")
def c11_xml_attrib_unescaped(f):
    import re
    return (_c11(f, "well-formed", "not-well-formed") and f.features.get("key") in _C11_ATTRIB_KEYS
            and re.fullmatch(r"attr:[\w?:.-]+@(OID|SEMANTIC|TI|CATEGORY)", f.features.get("where", "")) is not None)


@predicate("c11_comparam_param_class_unescaped")
def c11_comparam_param_class_unescaped(f):
    return (_c11(f, "well-formed", "not-well-formed")
            and f.features.get("key") in ("Comparam.param_class", "ComplexComparam.param_class")
            and f.features.get("where", "").endswith("@PARAM-CLASS"))


@predicate("c11_comparam_cpusage_none")
def c11_comparam_cpusage_none(f):
    return (_c11(f, "reload", "reload-raises") and f.features.get("exc") == "OdxError"
            and f.features.get("key") in ("Comparam.cpusage", "ComplexComparam.cpusage")
            and "unknown CPUSAGE ''" in f.detail)


@predicate("c11_comparam_display_level")
def c11_comparam_display_level(f):
    b = ("Comparam.display_level|dropped", "ComplexComparam.display_level|dropped")
    if _c11_bucket_in(f, "structural", b):
        return True
    # the first write has DISPLAY-LEVEL, the reloaded database lost it, so the second write differs
    return (f.clause == "idempotence" and f.features.get("key") == "DISPLAY-LEVEL"
            and any(x in f.features.get("with", "") for x in b))


@predicate("c11_progcode_text")
def c11_progcode_text(f):
    if (_c11(f, "well-formed", "not-well-formed") and f.features.get("where", "").startswith("text:")
            and f.features.get("key") in ("ProgCode.code_file", "ProgCode.encryption", "ProgCode.syntax",
                                          "ProgCode.revision", "ProgCode.entrypoint")):
        return True
    return (_c11_bucket_in(f, "structural", ("ProgCode.entrypoint|altered",))
            and f.features.get("a") == "None" and f.features.get("b") == "'None'")


@predicate("c11_compu_v_unescaped")
def c11_compu_v_unescaped(f):
    return (_c11(f, "well-formed", "not-well-formed") and f.features.get("where") == "text:V"
            and f.features.get("key") in ("CompuConst.v", "CompuInverseValue.v", "CompuDefaultValue.v"))


@predicate("c11_protstack_text_unescaped")
def c11_protstack_text_unescaped(f):
    return (_c11(f, "well-formed", "not-well-formed")
            and (f.features.get("key"), f.features.get("where")) in (
                ("ProtStack.pdu_protocol_type", "text:PDU-PROTOCOL-TYPE"),
                ("ProtStack.physical_link_type", "text:PHYSICAL-LINK-TYPE")))


@predicate("c11_unit_display_name_unescaped")
def c11_unit_display_name_unescaped(f):
    return (_c11(f, "well-formed", "not-well-formed") and f.features.get("key") == "Unit.display_name"
            and f.features.get("where") == "text:DISPLAY-NAME")


@predicate("c11_description_text_unescaped")
def c11_description_text_unescaped(f):
    return (_c11(f, "well-formed", "not-well-formed") and f.features.get("key") == "Description.text"
            and f.features.get("where") == "text:DESC")


@predicate("c11_diaglayer_oid_dropped")
def c11_diaglayer_oid_dropped(f):
    return _c11_bucket_in(f, "structural", tuple(f"{c}.oid|dropped" for c in _C11_LAYER_RAWS))


@predicate("c11_diaglayer_company_datas")
def c11_diaglayer_company_datas(f):
    return (_c11(f, "write", "write-raises") and f.features.get("exc") == "UndefinedError"
            and f.features.get("key") in tuple(f"{c}.company_datas" for c in _C11_LAYER_RAWS)
            and "'pcd' is undefined" in f.detail)


@predicate("c11_param_oid_dropped")
def c11_param_oid_dropped(f):
    return _c11_bucket_in(f, "structural", tuple(f"{c}.oid|dropped" for c in _C11_PARAM_CLASSES
                                                 if c != "TableKeyParameter"))


@predicate("c11_matching_request_bit_position")
def c11_matching_request_bit_position(f):
    return _c11_bucket_in(f, "structural", ("MatchingRequestParameter.bit_position|dropped",))


@predicate("c11_physical_type_precision_dropped")
def c11_physical_type_precision_dropped(f):
    return _c11_bucket_in(f, "structural", ("PhysicalType.precision|dropped",))


@predicate("c11_is_condensed_dropped")
def c11_is_condensed_dropped(f):
    return _c11_bucket_in(f, "structural", ("StandardLengthType.is_condensed_raw|dropped",))


@predicate("c11_dop_physical_constr")
def c11_dop_physical_constr(f):
    if (_c11(f, "write", "write-raises") and f.features.get("exc") == "UndefinedError"
            and f.features.get("key") == "DataObjectProperty.physical_constr"
            and "has no attribute 'lower_limit'" in f.detail):
        return True
    # PHYS-CONSTR is written from internal_constr: any difference below DataObjectProperty.physical_constr
    return f.clause == "structural" and "DataObjectProperty.physical_constr/" in f.features.get("path", "") + "/"


@predicate("c11_table_subelements_dropped")
def c11_table_subelements_dropped(f):
    return _c11_bucket_in(f, "structural", ("Table.key_label|dropped", "Table.struct_label|dropped",
                                            "Table.admin_data|dropped"))


@predicate("c11_tablerow_flags_dropped")
def c11_tablerow_flags_dropped(f):
    return _c11_bucket_in(f, "structural", ("TableRow.is_executable_raw|dropped", "TableRow.is_mandatory_raw|dropped",
                                            "TableRow.is_final_raw|dropped"))


@predicate("c11_request_response_admin_data_dropped")
def c11_request_response_admin_data_dropped(f):
    return _c11_bucket_in(f, "structural", ("Request.admin_data|dropped", "Response.admin_data|dropped"))


@predicate("c11_structure_admin_data_dropped")
def c11_structure_admin_data_dropped(f):
    return _c11_bucket_in(f, "structural", ("Structure.admin_data|dropped",))


@predicate("c11_ddds_admin_data_dropped")
def c11_ddds_admin_data_dropped(f):
    return _c11_bucket_in(f, "structural", ("DiagDataDictionarySpec.admin_data|dropped",))


@predicate("c11_loadfile_entry_points")
def c11_loadfile_entry_points(f):
    if f.clause != "entry-point":
        return False
    b = f.features.get("bucket")
    if b == "load_files|raises:OdxError":
        return "Reference to auxiliary file" in f.detail
    return b in ("load_files|Database.short_name", "load_directory|Database.short_name")
