"""Known-finding predicates (DESIGN 1.7).  known_findings.json lists recorded genuine
defects; an entry with status "known" names a predicate defined here.  A predicate
is deliberately narrow: clause + failure mode + minimal structural feature.  The
file is never written at run time."""
from __future__ import annotations

import json
from pathlib import Path

ROOT = Path(__file__).resolve().parent.parent

PREDICATES = {}


def predicate(name):
    def deco(fn):
        PREDICATES[name] = fn
        return fn
    return deco


_LOADED = False


def _load_pred_modules() -> None:
    global _LOADED
    if _LOADED:
        return
    _LOADED = True
    import importlib
    d = ROOT / "vlib" / "knownpreds"
    if d.is_dir():
        for f in sorted(d.glob("*.py")):
            if f.name != "__init__.py":
                importlib.import_module(f"vlib.knownpreds.{f.stem}")


def load(prop: str) -> list[dict]:
    _load_pred_modules()
    p = ROOT / "known_findings.json"
    if not p.exists():
        return []
    doc = json.loads(p.read_text())
    out = []
    for e in doc.get("findings", []):
        if e.get("property") == prop and e.get("status") == "known":
            if e.get("predicate") not in PREDICATES:
                raise RuntimeError(f"known finding {e.get('id')} names unknown predicate {e.get('predicate')}")
            out.append(e)
    return out


def match(kf: list[dict], failure) -> dict | None:
    for e in kf:
        if PREDICATES[e["predicate"]](failure):
            return e
    return None


# ---------------------------------------------------------------------------
# predicates are added below, next to the finding they describe
# ---------------------------------------------------------------------------


# ---- C12 / C13: odxtools/isotp_state_machine.py ---------------------------------------------
@predicate("c12_fd_single_frame_escape")
def c12_fd_single_frame_escape(f) -> bool:
    """CAN-FD single frame (> 8 bytes, PCI byte 0x00, length in byte 1) is reported as an empty telegram;
    the check assigns this bucket only if the reported lists equal the transmitted ones with exactly
    these telegrams replaced by b''."""
    return f.clause == "telegrams" and f.features.get("bucket") == "fd-sf-escape"


@predicate("c13_short_frame_bitstruct_error")
def c13_short_frame_bitstruct_error(f) -> bool:
    """bitstruct.Error for a frame too short for its PCI: empty frame, or first frame of one byte"""
    return (f.clause == "no-raise" and f.features.get("exc") == "Error" and f.features.get("short") is True
            and f.features.get("kind") in ("empty", "ff") and f.features.get("monitored") is True)


@predicate("c13_cf_without_first_frame")
def c13_cf_without_first_frame(f) -> bool:
    """AssertionError for a consecutive frame on an id that has not seen any (well-formed) first frame yet"""
    return (f.clause == "no-raise" and f.features.get("exc") == "AssertionError" and f.features.get("kind") == "cf"
            and f.features.get("no_first_frame") is True and f.features.get("short") is False)


@predicate("c13_telegram_reported_twice")
def c13_telegram_reported_twice(f) -> bool:
    """a consecutive frame with the next sequence number after completion re-reports the finished telegram"""
    return f.clause == "at-most-once" and f.features.get("kind") == "cf" and f.features.get("bucket") == "twice:cf"


# ---- C18 (comparison / listing tools) ----------------------------------------------------------
_C18_NOTHING = {"new": [], "deleted": [], "renamed": [], "changed": []}


@predicate("c18_rename_reported_as_nothing")
def _c18_rename_reported_as_nothing(f):
    """cli/compare.py: the rename branch is an `elif` with the same condition as the `if` before it,
    so a renamed service (same request prefix, new short name) is reported in none of the lists"""
    return (f.clause == "classification" and f.features.get("edit") == "rename" and
            f.features.get("via") in ("db", "dl") and f.features.get("observed") == _C18_NOTHING)


@predicate("c18_delete_only_service_reported_as_nothing")
def _c18_delete_only_service(f):
    """cli/compare.py: deleted services are searched inside the loop over the services of the new
    layer, so nothing is reported when the new layer has no service left"""
    return (f.clause == "classification" and f.features.get("edit") == "delete" and
            f.features.get("new_layer_services") == 0 and f.features.get("observed") == _C18_NOTHING)


@predicate("c18_comparam_count_always_zero")
def _c18_comparam_count_zero(f):
    """cli/_print_utils.py: print_dl_metrics reads the misspelt attribute `comparams_refs`"""
    return (f.clause == "metrics-comparams" and f.features.get("observed") == "0" and
            (f.features.get("expected") or 0) > 0)


@predicate("c18_service_tables_without_rows")
def _c18_service_tables_without_rows(f):
    """cli/_print_utils.py: extract_service_tabulation_data only adds rows when additional columns
    are given, so the tables of new / deleted / renamed services are printed empty"""
    rows = f.features.get("plain_table_rows")
    return (f.clause == "display" and f.features.get("list") in ("new", "deleted", "renamed") and
            bool(rows) and all(r == 0 for r in rows))


# --- C06 (dispatch of messages to services) ---------------------------------
@predicate("c06_failing_candidate_aborts")
def c06_failing_candidate_aborts(f):
    """DiagLayer.decode/decode_response raise DecodeError although a service matches exactly,
    and the reference sees another candidate (service or sibling coding object) on the lookup
    path that cannot take the message"""
    return (f.clause in ("raised-despite-must", "response-via-request")
            and f.features.get("exc") == "DecodeError" and f.features.get("cause") == "blocker"
            and bool(f.features.get("blockers")))


@predicate("c06_empty_prefix_never_found")
def c06_empty_prefix_never_found(f):
    """an exactly matching service is not reported (or DecodeError is raised) and every coding
    object under which it matches has an empty constant prefix"""
    if f.features.get("cause") != "empty-prefix":
        return False
    if f.clause == "missing-must":
        return True
    return f.clause in ("raised-despite-must", "response-via-request") and \
        f.features.get("exc", "DecodeError") == "DecodeError"


@predicate("c06_servicebinner_sid_encoding")
def c06_servicebinner_sid_encoding(f):
    """service_groups files a service under the wrong SID when the first constant is a
    little-endian 16 bit constant or the low part of a sub-byte pair"""
    return f.clause == "service-groups" and f.features.get("first_const") in ("cc16lh", "subbyte-lowfirst")


@predicate("c06_partial_mrp_encodeerror")
def c06_partial_mrp_encodeerror(f):
    """EncodeError out of decode()/decode_response() on a layer with a MATCHING-REQUEST-PARAM that is
    only partly covered by the constant prefix of the request"""
    return (f.clause in ("raised-despite-must", "foreign-exception", "response-via-request")
            and f.features.get("exc") == "EncodeError" and f.features.get("partial_mrp") is True)


@predicate("c06_gnr_mrp_unbound")
def c06_gnr_mrp_unbound(f):
    """a service is reported through a global negative response whose MATCHING-REQUEST-PARAM
    does not fit the constant prefix of that service's request"""
    return (f.clause in ("extra-mustnot", "wrong-coding-object", "no-raise-when-unmatched")
            and f.features.get("cause") == "gnr-mrp-unbound")


# ---- C10 ---------------------------------------------------------------------
@predicate("c10_import_leak")
def c10_import_leak(f) -> bool:
    """an unresolvable ID reference was accepted and bound to an object which only ANOTHER
    layer imports (IMPORT-REF), looked up in that other layer's fragment or its container's
    fragment: the shallow copy in DiagLayer._resolve_odxlinks leaked the imported ids"""
    return f.clause == "must-raise" and f.features.get("leak") is True and \
        f.features.get("why") in ("id-not-visible", "id-not-in-docref-fragment")


@predicate("c10_duplicate_local_short_names")
def c10_duplicate_local_short_names(f) -> bool:
    """a short-name reference to a name carried by several objects of the referring layer
    (not an ECU-SHARED-DATA) was accepted and bound to one of them"""
    ft = f.features
    return f.clause == "must-raise" and ft.get("why") == "ambiguous-local-name" and \
        ft.get("layer_type") not in (None, "ECU-SHARED-DATA") and ft.get("bound") in (ft.get("candidates") or [])


# ---------------------------------------------------------------------------
# C15 — communication parameters.  The check labels a failing lookup / accessor with the smallest set
# of recorded defects whose emulation in the reference model reproduces exactly the observed outcome
# (features["explained_by"]); anything not reproduced that way has explained_by None and is reported.
# ---------------------------------------------------------------------------
@predicate("c15_generic_before_specific")
def _c15_generic_before_specific(f):
    """hierarchyelement.get_comparam(name, protocol=P): the unqualified COMPARAM-REF is returned although
    one qualified with P is effective, because it comes first in comparam_refs"""
    return (f.clause in ("get-comparam", "accessor") and
            "generic-first" in (f.features.get("explained_by") or []))


@predicate("c15_accessor_ignores_default")
def _c15_accessor_ignores_default(f):
    """get_can_baudrate / get_can_fd_baudrate / get_max_can_payload_size / uses_can_fd read
    ComparamInstance.value instead of get_value(): empty value -> int('') / 8 / None instead of the default"""
    return (f.clause == "accessor" and
            f.features.get("accessor") in ("get_can_baudrate", "get_can_fd_baudrate", "get_max_can_payload_size") and
            "raw-value" in (f.features.get("explained_by") or []))


@predicate("c15_empty_subvalue_no_default")
def _c15_empty_subvalue_no_default(f):
    """ComparamInstance.get_subvalue: an empty SIMPLE-VALUE inside COMPLEX-VALUE is parsed as '' and returned
    as such (the default fallback only triggers for None), typed accessors then raise ValueError from int('')"""
    if "empty-subvalue" not in (f.features.get("explained_by") or []):
        return False
    if f.clause == "subvalue":
        return f.features.get("default") is True and f.features.get("got") == ""
    return f.clause == "accessor"


# ---- C14 -------------------------------------------------------------------
@predicate("c14_cache_bytearray_key")
def c14_cache_bytearray_key(f):
    """cache on: the bytearray returned by DiagService.encode_request() is used as dict key"""
    return (f.clause == "exception" and f.features.get("bucket") == "cache-bytearray-key"
            and f.features.get("cache") is True and f.features.get("exc") == "TypeError"
            and "unhashable type: 'bytearray'" in str(f.features.get("msg")))


@predicate("c14_coded_const_mismatch_decoded")
def c14_coded_const_mismatch_decoded(f):
    """the reported candidate differs from the reference, and is exactly the candidate the reference
    reports when responses are (wrongly) allowed to decode answers whose coded constants mismatch"""
    return (f.clause == "outcome" and f.features.get("bucket") == "coded-const-mismatch-decoded"
            and f.features.get("lenient_explains") is True)


# ---- C07 (compu methods, odxtools/compumethods/*) ---------------------------------------------
_C07_LINEAR = ("LINEAR", "SCALE-LINEAR")
_C07_VALUE_CLAUSES = ("i2p-value", "p2i-value", "roundtrip-value", "dop-decode", "dop-encode")


@predicate("c07_scalelinear_invertibility_inverted")
def c07_scalelinear_invertibility_inverted(f) -> bool:
    """scalelinearcompumethod.py: `abs(y0 - y1) < 1e-10` marks *continuous* methods as non-invertible, so a
    method that fulfils the ODX invertibility rule refuses to encode with the 'non-invertible' EncodeError"""
    ft = f.features
    return (ft.get("cat") == "SCALE-LINEAR" and f.clause in ("valid-converts", "roundtrip-raises")
            and ft.get("exc") == "EncodeError" and "non-invertible SCALE-LINEAR" in (ft.get("exc_msg") or "")
            and ft.get("odx_invertible") is True and (ft.get("nscales") or 0) >= 2)


@predicate("c07_scalelinear_valid_physical_noninvertible")
def c07_scalelinear_valid_physical_noninvertible(f) -> bool:
    """scalelinearcompumethod.py: is_valid_physical_value ignores the invertibility analysis: values of a
    method that does NOT fulfil the ODX invertibility rule are declared valid, converting raises"""
    ft = f.features
    return (ft.get("cat") == "SCALE-LINEAR" and f.clause == "valid-converts" and ft.get("exc") == "EncodeError"
            and "non-invertible SCALE-LINEAR" in (ft.get("exc_msg") or "") and ft.get("odx_invertible") is False)


@predicate("c07_linear_negative_denominator")
def c07_linear_negative_denominator(f) -> bool:
    """linearsegment.py: physical limits are swapped according to the sign of the factor instead of the
    sign of factor/denominator; only methods with a negative denominator and non-zero factor"""
    ft = f.features
    return (ft.get("cat") in _C07_LINEAR and ft.get("neg_den") is True and
            f.clause in ("image-valid", "valid-physical", "mc-encode", "roundtrip-raises", "valid-converts",
                         "p2i-value", "roundtrip-value", "dop-encode"))


@predicate("c07_constant_scale_open_limit")
def c07_constant_scale_open_limit(f) -> bool:
    """linearsegment.py: a constant scale (factor 0) with an OPEN internal limit gets an empty physical
    interval; its constant cannot be encoded although the method is monotone and continuous"""
    ft = f.features
    return (ft.get("cat") == "SCALE-LINEAR" and f.clause == "mc-encode" and ft.get("mode") == "declared-False"
            and ft.get("p_is_const_of_open_scale") is True)


@predicate("c07_tabintp_truncation")
def c07_tabintp_truncation(f) -> bool:
    """tabintpcompumethod.py: integer results are produced with int() (cut off) instead of rounding"""
    ft = f.features
    return ft.get("cat") == "TAB-INTP" and f.clause in _C07_VALUE_CLAUSES and ft.get("mode") == "truncated"


@predicate("c07_tabintp_descending_inverse")
def c07_tabintp_descending_inverse(f) -> bool:
    """tabintpcompumethod.py: the interpolation only looks at ascending sample intervals: physical values
    that lie in no ascending interval of the table cannot be encoded (EncodeError), a value on a
    constant interval divides by zero"""
    ft = f.features
    if ft.get("cat") != "TAB-INTP" or f.clause not in ("valid-converts", "roundtrip-raises", "dop-encode"):
        return False
    if ft.get("exc") == "EncodeError":
        return ft.get("in_ascending_interval") is False or (
            f.clause == "roundtrip-raises" and ft.get("tab_shape") == "descending")
    if ft.get("exc") == "ZeroDivisionError":
        return ft.get("on_flat_interval") is True or (
            f.clause == "roundtrip-raises" and ft.get("tab_shape") == "flat")
    return False


@predicate("c07_texttable_default_direction")
def c07_texttable_default_direction(f) -> bool:
    """texttablecompumethod.py: is_valid_internal_value looks at the default of the physical->internal
    direction and is_valid_physical_value at the default text of the internal->physical direction"""
    ft = f.features
    if ft.get("cat") != "TEXTTABLE":
        return False
    i2p, p2i = ft.get("default_i2p"), ft.get("default_p2i")
    if f.clause == "valid-internal":
        return ft.get("mode") == "declared-True" and p2i is True and i2p is False
    if f.clause == "valid-physical":
        return ft.get("mode") == "declared-True" and i2p is True and p2i is False
    if f.clause == "valid-converts":
        return ft.get("exc") == "EncodeError" and i2p is True and p2i is False
    return False


@predicate("c07_ratfunc_domain_type")
def c07_ratfunc_domain_type(f) -> bool:
    """ratfuncsegment.py: applies() type-checks the argument against the type of the result: float
    arguments are rejected when the other side's type is integral"""
    ft = f.features
    if ft.get("cat") not in ("RAT-FUNC", "SCALE-RAT-FUNC"):
        return False
    if f.clause == "valid-internal":
        return (ft.get("mode") == "declared-False" and ft.get("it") == "float" and ft.get("pt") == "int"
                and ft.get("value_float") is True)
    if f.clause == "valid-physical":
        return (ft.get("mode") == "declared-False" and ft.get("it") == "int" and ft.get("pt") == "float"
                and ft.get("value_float") is True)
    if f.clause == "image-valid":
        return ft.get("it") == "int" and ft.get("pt") == "float" and ft.get("image_float") is True
    return False


@predicate("c07_open_integer_limit_after_rounding")
def c07_open_integer_limit_after_rounding(f) -> bool:
    """linearsegment.py: the physical limit derived from an OPEN internal limit is the *rounded* image of
    the limit and stays OPEN, so it also excludes the images of valid internal values that round to the same
    integer (slope +-1 with a half-integral offset under round-half-to-even; any slope below one).
    Signature: integer physical type, the physical value declared invalid equals the rounded image of an OPEN limit"""
    ft = f.features
    if not (ft.get("cat") in _C07_LINEAR and ft.get("pt") == "int"
            and ft.get("p_is_rounded_open_limit_image") is True):
        return False
    if f.clause == "image-valid":
        return ft.get("mode") == "tie"
    return f.clause == "mc-encode" and ft.get("mode") == "declared-False"
