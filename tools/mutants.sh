#!/usr/bin/env bash
# Development tool (not registered): sensitivity suite.  usage: tools/mutants.sh [pattern]
# For every mutants/<name>.patch: apply it in a scratch worktree of /repo HEAD, make sure the repo's own tests
# still pass (else the mutant is reported as "killed-by-repo-tests"), run ./check <ID> quick for every ID in
# mutants/<name>.txt ("kills: ID ID ..."), expect exit 1.
cd "$(dirname "$0")/.."
W=$(mktemp -d /tmp/mutrun-XXXX); rmdir "$W"
git -C /repo worktree add --detach "$W" HEAD -q || exit 2
trap 'git -C /repo worktree remove --force "$W" >/dev/null 2>&1; rm -rf "$W"' EXIT
for p in mutants/${1:-*}.patch; do
  n=$(basename "$p" .patch)
  ids=$(grep -h -i "^#\? *kills:" "mutants/$n.txt" 2>/dev/null | head -1 | sed 's/^#\? *kills: *//I' | tr ',' ' ')
  [ -z "$ids" ] && ids=${n%%-*}
  git -C "$W" checkout -q -- . ; git -C "$W" clean -fdq
  if ! git -C "$W" apply "$PWD/$p" 2>/dev/null; then
    # written against an older tree (before fix: commits): try a 3-way merge on the blobs named in the patch
    git -C "$W" checkout -q -- . ; git -C "$W" clean -fdq
    if ! git -C "$W" apply -3 "$PWD/$p" >/dev/null 2>&1 || git -C "$W" diff --name-only --diff-filter=U | grep -q .; then
      echo "$n: DOES-NOT-APPLY"; git -C "$W" reset -q --hard; continue
    fi
    git -C "$W" reset -q
  fi
  t=$(cd "$W" && PYTHONDONTWRITEBYTECODE=1 /venv/bin/python -m pytest -q -p no:cacheprovider tests 2>&1 | tail -1)
  case "$t" in *"140 passed"*) ;; *) echo "$n: killed-by-repo-tests ($t)"; continue;; esac
  out="$n:"
  for id in $ids; do
    VERIF_REPO_DIR="$W" ./check "$id" quick >/tmp/mutrun-$$.log 2>&1; rc=$?
    out="$out $id=rc$rc"
  done
  echo "$out"
done
rm -f /tmp/mutrun-$$.log
