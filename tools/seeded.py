#!/usr/bin/env python3
"""Development tool (not a registered command): verify seeded defects and run checks against them.

  seeded.py verify <seeded-dir>            demo passes on clean tree; with patch: repo tests pass, demo fails
  seeded.py run <seeded-dir> [ID ...]      run ./check <ID> quick against the patched tree (default: meta.property)
  seeded.py matrix                         run every /verif/seeded/*/ against its property's quick check

The patched tree is a throw-away git worktree of /repo's HEAD under /tmp which is removed afterwards
(equivalent to `git -C /repo apply` + `git -C /repo checkout -- .`, but does not disturb concurrent runs).
With --in-repo the patch is applied to /repo itself and reverted straight afterwards.
"""
import json
import os
import shutil
import subprocess
import sys
import tempfile
from pathlib import Path

ROOT = Path(__file__).resolve().parent.parent
REPO = "/repo"
PY = "/venv/bin/python"


def sh(cmd, **kw):
    return subprocess.run(cmd, capture_output=True, text=True, **kw)


class Tree:
    def __init__(self, patch: Path | None, in_repo=False):
        self.patch = patch
        self.in_repo = in_repo

    def __enter__(self):
        if self.in_repo:
            self.dir = REPO
            if self.patch:
                r = sh(["git", "-C", REPO, "apply", str(self.patch)])
                if r.returncode:
                    raise RuntimeError("patch does not apply: " + r.stderr)
            return self.dir
        self.dir = tempfile.mkdtemp(prefix="seedrun-", dir="/tmp")
        os.rmdir(self.dir)
        r = sh(["git", "-C", REPO, "worktree", "add", "--detach", self.dir, "HEAD"])
        if r.returncode:
            raise RuntimeError(r.stderr)
        if self.patch:
            r = sh(["git", "-C", self.dir, "apply", str(self.patch)])
            if r.returncode:
                # the tree has moved on (later fix: commits touched neighbouring lines): 3-way merge on the blobs
                r3 = sh(["git", "-C", self.dir, "apply", "-3", str(self.patch)])
                unmerged = sh(["git", "-C", self.dir, "diff", "--name-only", "--diff-filter=U"]).stdout.strip()
                if r3.returncode or unmerged:
                    self.__exit__()
                    raise RuntimeError("patch does not apply: " + r.stderr + r3.stderr)
                sh(["git", "-C", self.dir, "reset", "-q"])
        return self.dir

    def __exit__(self, *a):
        if self.in_repo:
            sh(["git", "-C", REPO, "checkout", "--", "."])
        else:
            sh(["git", "-C", REPO, "worktree", "remove", "--force", self.dir])
            shutil.rmtree(self.dir, ignore_errors=True)


def demo(tree, d: Path):
    demo_py = next((d / n for n in ("demo.py", "demo_test.py") if (d / n).exists()), None)
    env = dict(os.environ, PYTHONPATH=tree, PYTHONDONTWRITEBYTECODE="1")
    return sh([PY, str(demo_py)], env=env, cwd=str(d), timeout=600)


def verify(d: Path, in_repo=False):
    out = {}
    with Tree(None, in_repo) as t:
        out["demo_clean_rc"] = demo(t, d).returncode
    with Tree(d / "patch.diff", in_repo) as t:
        r = sh([PY, "-m", "pytest", "-q", "-p", "no:cacheprovider", "tests"], cwd=t, env=dict(os.environ, PYTHONDONTWRITEBYTECODE="1"))
        out["tests"] = (r.stdout.strip().splitlines() or ["?"])[-1]
        out["demo_patched_rc"] = demo(t, d).returncode
    out["ok"] = out["demo_clean_rc"] == 0 and out["demo_patched_rc"] != 0 and "140 passed" in out["tests"] and "failed" not in out["tests"]
    return out


def run(d: Path, ids, in_repo=False, tier="quick"):
    res = {}
    with Tree(d / "patch.diff", in_repo) as t:
        for pid in ids:
            env = dict(os.environ, VERIF_REPO_DIR=t)
            r = sh(["./check", pid, tier], cwd=str(ROOT), env=env, timeout=7200)
            lines = [ln for ln in r.stdout.splitlines() if ln.startswith("VIOLATION") or "violation bucket" in ln]
            res[pid] = {"rc": r.returncode, "lines": lines[:6], "tail": r.stdout.strip().splitlines()[-1:] + r.stderr.strip().splitlines()[-2:]}
    return res


def main():
    args = sys.argv[1:]
    in_repo = "--in-repo" in args
    args = [a for a in args if a != "--in-repo"]
    cmd = args[0]
    if cmd == "verify":
        print(json.dumps(verify(Path(args[1]).resolve(), in_repo), indent=1))
    elif cmd == "run":
        d = Path(args[1]).resolve()
        ids = args[2:] or [json.loads((d / "meta.json").read_text())["property"]]
        print(json.dumps(run(d, ids, in_repo), indent=1))
    elif cmd == "matrix":
        rows = []
        for d in sorted((ROOT / "seeded").iterdir()):
            if not (d / "patch.diff").exists():
                continue
            meta = json.loads((d / "meta.json").read_text())
            ids = args[1:] or [meta["property"]]
            try:
                r = run(d, ids, in_repo)
            except RuntimeError as e:
                print(d.name, "ERROR", str(e)[:200], flush=True)
                continue
            rows.append((d.name, {k: v["rc"] for k, v in r.items()}))
            print(d.name, {k: v["rc"] for k, v in r.items()}, flush=True)
    else:
        print(__doc__)


if __name__ == "__main__":
    main()
