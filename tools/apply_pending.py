#!/usr/bin/env python3
"""Coordinator tool: apply one pending fix to /repo as a 'fix:' commit and mark the finding fixed.
usage: apply_pending.py <slug> [<slug> ...]   (slug = file stem in pending_fixes/)"""
import json, subprocess, sys
from pathlib import Path
ROOT = Path(__file__).resolve().parent.parent
REPO = "/repo"

def sh(*a, **kw):
    return subprocess.run(a, capture_output=True, text=True, **kw)

def main():
    for slug in sys.argv[1:]:
        diff = ROOT / "pending_fixes" / f"{slug}.diff"
        msg = (ROOT / "pending_fixes" / f"{slug}.msg").read_text().strip()
        if not msg.startswith("fix:"):
            print(slug, "message does not start with fix:"); continue
        r = sh("git", "-C", REPO, "apply", "--check", str(diff))
        if r.returncode:
            r3 = sh("git", "-C", REPO, "apply", "--3way", str(diff))
            if r3.returncode:
                print(slug, "DOES NOT APPLY:", r.stderr[:300]); continue
        else:
            sh("git", "-C", REPO, "apply", str(diff))
        t = sh("/venv/bin/python", "-m", "pytest", "-q", "-p", "no:cacheprovider", "tests", cwd=REPO)
        tail = t.stdout.strip().splitlines()[-1] if t.stdout.strip() else t.stderr[-200:]
        if "140 passed" not in tail or "failed" in tail:
            print(slug, "TESTS FAIL:", tail)
            sh("git", "-C", REPO, "checkout", "--", ".")
            sh("git", "-C", REPO, "clean", "-fdq")
            continue
        sh("git", "-C", REPO, "add", "-A")
        c = sh("git", "-C", REPO, "commit", "-q", "-m", msg)
        if c.returncode:
            print(slug, "commit failed", c.stderr); continue
        sha = sh("git", "-C", REPO, "log", "--oneline", "-1").stdout.split()[0]
        p = ROOT / "known_findings.json"
        k = json.loads(p.read_text())
        hit = False
        for e in k["findings"]:
            if e.get("id") == slug or e.get("pending_fix", "").endswith(f"{slug}.diff"):
                e["status"] = "fixed"; e["commit"] = sha
                e["line"] = f"fixed: property={e['property']} {sha} {e['what'][:160]}"
                e.pop("predicate", None); e.pop("pending_fix", None)
                hit = True
        if not hit:
            prop = slug.split("-")[0]
            k["findings"].append({"status": "fixed", "property": prop, "commit": sha, "what": msg.splitlines()[0][5:],
                                  "line": f"fixed: property={prop} {sha} {msg.splitlines()[0][5:]}"})
        p.write_text(json.dumps(k, indent=1))
        (ROOT / "pending_fixes" / "applied").mkdir(exist_ok=True)
        for ext in (".diff", ".msg"):
            (ROOT / "pending_fixes" / f"{slug}{ext}").rename(ROOT / "pending_fixes" / "applied" / f"{slug}{ext}")
        print(slug, "applied as", sha, "|", tail)

main()
