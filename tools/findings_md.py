#!/usr/bin/env python3
"""prints the findings tables of DESIGN.md section 8 from known_findings.json"""
import json
from pathlib import Path
ROOT = Path(__file__).resolve().parent.parent
d = json.loads((ROOT / "known_findings.json").read_text())
fx = [e for e in d["findings"] if e["status"] == "fixed"]
kn = [e for e in d["findings"] if e["status"] == "known"]
print("### 8.1 Recorded, not repaired (status `known`, suppressed only by the named narrow predicate)\n")
print("| id | property | what fails | witness | predicate |\n|---|---|---|---|---|")
for e in sorted(kn, key=lambda e: e["property"]):
    print(f"| {e['id']} | {e['property']} | {e['what']} | `{e['witness']}` | `{e['predicate']}` |")
print("\n### 8.2 Repaired (`fix:` commits in /repo, one per root cause; a fixed entry suppresses nothing)\n")
print("| property | commit | what failed | witness |\n|---|---|---|---|")
for e in sorted(fx, key=lambda e: (e["property"], e["commit"])):
    print(f"| {e['property']} | {e['commit']} | {e['what']} | `{e.get('witness', '')}` |")
