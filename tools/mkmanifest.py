#!/usr/bin/env python3
"""Regenerates MANIFEST.json from the table below (keeps not_applicable current)."""
import json, sys
from pathlib import Path
ROOT = Path(__file__).resolve().parent.parent
ALL = [f"C{i:02d}" for i in range(1, 19)]

CHECKS = {
 "C01": dict(
    technique="Hypothesis-generated ODX descriptions (IR -> XML -> odxtools) x values; round trip compared with an independent reference interpreter's expectation",
    text="Bounded exploration: thousands of generated request/response descriptions (all parameter kinds of the envelope, nested "
         "structures, fields, multiplexers, length keys, bit positions, byte orders, encodings) x valid value assignments; "
         "decode(encode(v)) must equal the reference expectation (defaults, constants, derived keys), consume the whole PDU, "
         "reject a truncated static PDU, and agree through DiagService.encode_request / DiagLayer.decode.",
    note="Trusted: vlib emitter and reference interpreter (vlib/refcodec.py, written from the ODX rules, no odxtools import), Hypothesis. "
         "Envelope restrictions E1-E20 of DESIGN.md 2.1.",
    design="3/C01"),
 "C02": dict(
    technique="differential testing against an independent big-integer reference encoder; exhaustive atomic parameter grid; both bitstruct backends",
    text="Bounded exploration with an explicit non-implementation oracle: (a) the complete grid base type x encoding x byte order x "
         "bit length 1..64 x bit position 0..7 with boundary and pattern values through EncodeState/DecodeState (and one-parameter XML "
         "requests), (b) generated composite descriptions x values: odxtools PDU == reference PDU bit for bit, decode of the reference PDU "
         "== values, overlap warning iff the reference used-bit mask has a doubly claimed bit, (c) the same cases in a sub-process "
         "forced onto the pure-Python bitstruct backend with outcome digests compared, (d) bitstruct.c vs bitstruct on every format the codec builds.",
    note="Trusted: the reference rules of DESIGN.md 2.3 (assumptions listed in the evidence), Hypothesis. Symmetric misreadings shared by the reference and odxtools are not detectable.",
    design="3/C02"),
 "C03": dict(
    technique="reference-built canonical PDUs -> odxtools decode -> odxtools encode, byte equality; exhaustive sweep of one small leaf per description",
    text="Bounded exploration starting from the wire: canonical PDUs are built by the independent reference encoder from generated "
         "descriptions; every internal value of one integer leaf of <= 8 (quick) / 12 (thorough) bits is enumerated per description; "
         "decode then encode must reproduce the PDU, an OdxError from the re-encode counts as violation; repeated through "
         "DiagLayer.decode / DiagService.encode_request. The compu-method clause is covered by C07's 'roundtrip' clause on exhaustive 8-bit domains.",
    note="Trusted: reference encoder (canonical PDUs), Hypothesis. PDUs odxtools refuses to decode are outside the statement and only counted.",
    design="3/C03"),
 "C04": dict(
    technique="exhaustive integer sweep around representability boundaries + Hypothesis-generated single-site value mutations; oracle: OdxError or faithful round trip",
    text="(1) complete enumeration: one-leaf requests for every integer base type/encoding with bit length <= 8 (quick) / 12 (thorough), "
         "every integer in [min-2^n, max+2^n], plus boundary values for 16..64 bit leaves; (2) generated descriptions with a valid "
         "assignment mutated at one site (out of range, wrong type, wrong length, terminator inside, unencodable characters, missing "
         "required / unknown parameters, malformed mux/field shapes). Outcome must be an OdxError or a PDU that decodes to the requested "
         "values (quantising LINEAR methods: nearest-integer rule); any other exception class is a violation.",
    note="Trusted: reference representable ranges (vlib/refcodec.int_range), value equivalence of DESIGN 2.5. Known finding C04-bitmask-truncates excluded by counterfactual predicate.",
    design="3/C04"),
 "C05": dict(
    technique="structured byte-string fuzzing (prefixes, single-byte mutations, exhaustive short strings, random) over generated descriptions and the shipped database; atheris coverage-guided campaign in the thorough tier",
    text="Bounded exploration from the wire: every prefix and single-byte mutation of valid PDUs, over-long PDUs, all strings of length <= 3 "
         "over a reduced alphabet and random strings, for generated descriptions and every layer of examples/somersault.pdx, through "
         "Request/Response.decode, DiagService.decode_message, DiagLayer.decode and decode_response, under the default and the "
         "error::DecodeError warning regimes. Only DecodeError may escape, decoding must terminate (10 s guard), truncated static PDUs must be rejected.",
    note="Trusted: Hypothesis, atheris/libFuzzer (thorough only), wall-clock guard for non-termination (generous, confirmed before reporting).",
    design="3/C05"),
 "C06": dict(
    technique="three-valued reference dispatcher (MUST / MAY / MUST-NOT) over Hypothesis-generated service sets; exhaustive pairs/triples of services x short messages",
    text="Bounded exploration: generated layers (1..5 services, shared/nested/empty constant prefixes, 8/16-bit and sub-byte constants in both "
         "byte orders, matching-request parameters, NRC-CONST alternatives, global negative responses) x own encodings of every coding object, "
         "all byte strings up to length 3 over a small alphabet and random strings; DiagLayer.decode must report every MUST service with "
         "reference-equal values, no MUST-NOT service, raise DecodeError only if MUST and MAY are empty; decode_response and service_groups clauses. "
         "Complete enumeration of all pairs (quick) / triples (thorough) of request-only services against all short messages.",
    note="Trusted: reference encoder/dispatcher vlib/models/dispatch.py (no odxtools import), Hypothesis. Undecided situations (trailing bytes, half-constant first byte) are in the MAY class and never asserted. Known finding C06-empty-prefix-never-found excluded by predicate.",
    design="3/C06"),
 "C07": dict(
    technique="differential testing against an exact rational (fractions.Fraction) reference of all compu categories; exhaustive 8-bit internal domains",
    text="Bounded exploration: Hypothesis-generated compu methods of every category (IDENTICAL, LINEAR, SCALE-LINEAR, TEXTTABLE, TAB-INTP, RAT-FUNC, "
         "SCALE-RAT-FUNC, COMPUCODE) x internal/physical type pairs x coefficients, limits and interval types, built both directly from the "
         "dataclasses and through XML; for every value of 8-bit internal domains (exhaustive) and boundary/random values otherwise: validity, "
         "internal->physical and physical->internal results in the reference's nearest-integer result set (or within float tolerance), image "
         "validity and round trip for injective methods, declared-valid physical values convert, monotone continuous SCALE-LINEAR encodes, "
         "Limit/compare_odx_values agree with exact comparison.",
    note="Trusted: vlib/refcompu.py (exact arithmetic, no odxtools import), Hypothesis. Situations the statement leaves open (one-sided scales, floats offered to integer sides, overlapping text scales) are generated but not judged (listed in the evidence assumptions).",
    design="3/C07"),
 "C08": dict(
    technique="Hypothesis-generated descriptions; static metadata cross-checked against actual encodings, omission and alternative-value experiments per parameter",
    text="Bounded exploration: for generated descriptions x accepted assignments (a) get_static_bit_length of message, parameters and "
         "structures vs the length of actual encodings (message and object encoded alone into a public EncodeState), (b) coded_const_prefix "
         "is a prefix of the PDU, (c) required_parameters == parameters whose omission makes encode raise, (d) free_parameters == parameters "
         "for which two different accepted values change the PDU; constants/reserved/matching-request never settable.",
    note="Trusted: Hypothesis, the generator's injective DOPs. Known finding C08-condensed-mask-static-length is excluded by a counterfactual predicate.",
    design="3/C08"),
 "C17": dict(
    technique="differential testing over flip schedules: strict / run-time non-strict / strict again in one worker vs a born-non-strict worker process",
    text="Bounded exploration: operations of C01-C06 (encode of valid and singly mutated assignments, decode of valid, truncated, corrupted and "
         "random PDUs incl. invalid UTF-8, layer decode, loading of valid and slightly non-conforming documents) over generated descriptions. "
         "(a) an operation that succeeds strict returns the identical result non-strict; (b) the non-strict outcome after a run-time flip equals "
         "the outcome in a process whose flag was cleared before any odxtools sub-module was imported (a stale import-time copy differs); "
         "(c) flipping back restores exactly the strict outcome.",
    note="Trusted: outcome normalisation (repr, masked addresses), the importlib bootstrap of the born-non-strict worker. Only call sites reached by the generated operations are exercised.",
    design="3/C17"),
 "C18": dict(
    technique="metamorphic testing: one generated edit per database pair, expected classification from an independent XML-level model; complete enumeration of single edits of somersault.pdx",
    text="Bounded exploration: generated databases (1..3 layers, inheritance, services sharing request prefixes) and the shipped somersault.pdx x one "
         "edit (add/delete/rename service, change byte position / bit length / coded value / semantic / data type / linked DOP of one parameter) or "
         "identity; compare_databases / compare_diagnostic_layers must list exactly the edited service in exactly the list of its kind, "
         "self-comparison must be empty, printed tables contain the reported services, print_dl_metrics rows equal the model's counts of services, "
         "DOPs and communication parameters.",
    note="Trusted: the XML-level model vlib/models/clidb.py, Hypothesis; a recorder replaces rich_print (harness side). Distinct request prefixes per layer are an envelope condition.",
    design="3/C18"),
 "C09": dict(
    technique="reference model of ODX value inheritance over Hypothesis-generated layer hierarchies; exhaustive small scopes per category",
    text="Bounded exploration: hierarchies of 1..5 layers of all five types (single/multiple parents, diamonds, several documents) x 17 object "
         "categories x NOT-INHERITED lists; per layer and category the visible {short name -> uid} must equal the reference model "
         "(local overrides, highest-priority parent wins), loading raises in strict mode iff an unsettled top-priority clash exists, a parent "
         "loaded alone equals the parent loaded with children, and a PDU of an inherited service decodes on the inheriting layer iff the service is visible. "
         "Complete enumeration of 2-layer x 2-name placements for every category (3 layers for six categories in thorough).",
    note="Trusted: vlib/models/inherit.py and hier_xml.py (no odxtools import in the model), Hypothesis. Non-strict mode and cross-kind DOP overriding are not asserted.",
    design="3/C09"),
 "C10": dict(
    technique="reference ODXLINK/SNREF resolver over Hypothesis-generated multi-container document sets with colliding local ids; uid tagging of every object",
    text="Bounded exploration: document sets of 1..3 containers x layers with local ids deliberately re-used across documents, 28 reference kinds in "
         "ID-REF and SNREF form, DOCREF variants, IMPORT-REFs, inherited SNREFs, and dangling/ambiguous references; each resolved attribute must "
         "carry the uid the reference resolver expects, sets with a bad reference must raise in strict mode and never bind elsewhere, valid sets "
         "must load, retarget_snrefs rebinds to the target layer's view. Cases the ODX text does not decide are classed 'loose' and not asserted.",
    note="Trusted: vlib/models/odxlink.py (reference resolver + emitter), Hypothesis. Uncovered reference kinds are listed in notes/C10.md.",
    design="3/C10"),
 "C11": dict(
    technique="enumerated single-attribute perturbation matrix (dataclass type x field) + Hypothesis-composed perturbations; write/load round trip with a recursive dataclass differ",
    text="Bounded exploration / fault enumeration over the object graph of the shipped PDX files: 715 sound single-field perturbations of 270 "
         "Class.field pairs (quick: seed-selected 1/8 slice; thorough: all) and composed perturbations; each perturbed database is written and "
         "reloaded: written XML is well formed, reload succeeds, containers/comparam subsets/specs are dataclass-equal (first differing Class.field "
         "is the root-cause bucket), write(load(write(db))) is byte-identical, encode/decode behaviour is identical, and every file order and entry "
         "point (load_pdx_file, load_file, load_directory, load_files) yields an equal database.",
    note="Trusted: vlib/models/dcdiff.py, pdxperturb.py (soundness rules for perturbed values), Hypothesis. Only classes present in the shipped examples are reached.",
    design="3/C11"),
 "C12": dict(
    technique="reference ISO 15765-2 segmenter as generator/oracle; exhaustive telegram lengths and merge orders; Hypothesis-drawn interleavings",
    text="Bounded exploration: telegram sets segmented by an independent reference segmenter (single / first / consecutive frames, SN wrap, classic and "
         "FD frame sizes incl. the FD single-frame escape, arbitrary padding), interleaved over up to 3 CAN ids with flow-control and foreign frames; "
         "decode_rx_frame, read_telegrams on three candump renderings and IsoTpActiveDecoder (recording fake bus) must report exactly the "
         "transmitted payloads per id in order, the text interface must agree, and every first frame is answered by one clear-to-send flow control. "
         "Complete enumeration of merge orders for small frame counts and of lengths 1..260 (quick) / 1..4095 (thorough).",
    note="Trusted: vlib/models/isotp.py (segmenter + renderers), Hypothesis. Socket path of read_telegrams, 32-bit FF length escape and extended addressing are out of scope.",
    design="3/C12"),
 "C13": dict(
    technique="fault-operator histories (Hypothesis) + exhaustive single-fault sweep + sampled double faults against a justification acceptor; atheris campaign in thorough",
    text="Bounded exploration / fault enumeration: well-formed streams x drop, duplicate, swap, truncate, corrupt-PCI, inject stray consecutive / flow-control / "
         "empty / over-long frame, abandon transfer (every operator at every position for 5 base streams, sampled double faults, generated histories, "
         "random frames; 4 x 200k atheris executions in thorough); processing never raises, every reported telegram is justified by the frame history "
         "of its id under either admissible recovery policy, each first frame yields at most one telegram, and an undisturbed transfer is reported exactly once.",
    note="Trusted: the Justifier acceptor in vlib/models/isotp.py (assumes a new well-formed first frame supersedes the transfer in progress), Hypothesis, atheris.",
    design="3/C13"),
 "C14": dict(
    technique="reference matcher and simulated ECU driven as a history against VariantMatcher.request_loop/evaluate; enumerated catalogue of candidate lists x ECU functions",
    text="Bounded exploration: candidate lists of ECU/base variants built through XML (0..3 patterns, 1..3 matching parameters, shared and distinct "
         "identification services, SNREF and SNPATHREF targets in structures and fields) x deterministic ECU response functions x cache on/off; the "
         "reported variant must be the reference's first candidate with a fully matching pattern (or none), independent of caching; every yielded "
         "request belongs to a candidate's identification service; with cache no request repeats. Complete enumeration of a fixed catalogue of 11 "
         "variants in all ordered lists of length <= 2 (3 in thorough) x 50 ECU functions.",
    note="Trusted: vlib/models/matcher.py (reference codec/matcher, no odxtools import), Hypothesis. Ambiguous ECU answers (trailing bytes, partial field items) are not judged.",
    design="3/C14"),
 "C15": dict(
    technique="reference model of communication-parameter resolution over generated hierarchies and comparam subsets/specs",
    text="Bounded exploration: C09-style hierarchies with a generated COMPARAM-SUBSET/-SPEC, COMPARAM-REFs with and without protocol qualifier, simple "
         "and complex values, omitted and empty values on any subset of layers; the effective set per (parameter, protocol), get_comparam with "
         "None / name / Protocol object, get_value/get_subvalue default fallback and 13 typed accessors must equal the reference model and never raise.",
    note="Trusted: vlib/models/comparam.py, Hypothesis. Equal-priority ambiguities accept either instance.",
    design="3/C15"),
 "C16": dict(
    technique="Hypothesis RuleBasedStateMachine against a list model + exhaustive enumeration of short histories",
    text="Bounded exploration: random long histories (rule-based state machine, model = Python list of the same objects, "
         "invariants after every step) plus complete enumeration of all histories up to depth 4 (quick) / 5 (thorough) over a "
         "3-item collision alphabet. No proof of absence beyond the enumerated depth.",
    note="Trusted: Hypothesis, the list model in vlib/checks/c16.py, CPython list semantics. Only the mutators named in the property are driven.",
    design="3/C16"),
}

NOT_YET = "check not built yet"

def main():
    checks = []
    for pid in ALL:
        if pid not in CHECKS:
            continue
        c = CHECKS[pid]
        checks.append({
            "property_id": pid,
            "quick_cmd": f"./check {pid} quick",
            "thorough_cmd": f"./check {pid} thorough",
            "evidence_file": f"evidence/{pid}.json",
            "replay_cmd_template": f"./check {pid} --replay {{path}}",
            "engine": "vlib",
            "technique": c["technique"],
            "level_claimed": {"category": "exploration", "text": c["text"], "design_ref": c["design"]},
            "level_note": c["note"],
        })
    na = [{"property_id": p, "reason": NOT_YET} for p in ALL if p not in CHECKS]
    m = {
        "version": 1,
        "setup_cmd": "./setup.sh",
        "hooks": {
            "guard": "MERCEDES_BENZ_ODXTOOLS_VERIF",
            "enable": "no source hooks exist: checks import odxtools from /repo's working tree (PYTHONPATH) in a fresh interpreter; the variable is exported by ./check for form only",
            "baseline_off_cmd": "cd /repo && /venv/bin/python -m pytest -ra -q -p no:cacheprovider --timeout=900 --continue-on-collection-errors",
            "source_commits": [],
            "add_only": True,
        },
        "engines": [{"name": "vlib", "path": "vlib/", "serves_properties": sorted(CHECKS),
                     "kind_free_text": "property-based testing (Hypothesis strategies and rule-based machines), exhaustive enumeration of small finite sub-spaces, atheris coverage-guided fuzzing in thorough tiers; independent reference models as oracles"}],
        "checks": checks,
        "not_applicable": na,
        "notes": "All checks: ./check <ID> quick|thorough [--replay PATH]; exit 0/1/2 per DESIGN.md 1.2. Known findings in known_findings.json.",
    }
    (ROOT / "MANIFEST.json").write_text(json.dumps(m, indent=1) + "\n")
    try:
        import jsonschema
        jsonschema.validate(m, json.loads((ROOT / "vlib/schemas/MANIFEST.schema.json").read_text()))
        print("MANIFEST.json valid;", len(checks), "checks,", len(na), "not yet claimed")
    except ImportError:
        print("written (jsonschema unavailable)")

if __name__ == "__main__":
    main()
