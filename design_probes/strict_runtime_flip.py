import odxtools, odxtools.exceptions as ex
from odxtools.decodestate import DecodeState
from odxtools.odxtypes import DataType
ex.strict_mode=False
st = DecodeState(coded_message=b"\xff\xfe")
try:
    print(repr(st.extract_atomic_value(bit_length=16, base_data_type=DataType.A_UTF8STRING, base_type_encoding=None, is_highlow_byte_order=True)))
except Exception as e: print("runtime-flipped:", type(e).__name__, e)
