# throw-away probe: composite descriptions, reference layout vs odxtools
import io, random, sys, warnings, traceback, os, tempfile
from odxtools.database import Database
from odxtools.exceptions import OdxError, OdxWarning
XSI='xmlns:xsi="http://www.w3.org/2001/XMLSchema-instance"'
class G:
    def __init__(s, rnd): s.rnd=rnd; s.n=0; s.dops=[]; s.structs=[]; s.fields=[]; s.muxs=[]; s.tables=[]
    def nid(s,p): s.n+=1; return f"{p}{s.n}"
def dct_std(bt,bl,enc=None,hl=None):
    a=f' BASE-DATA-TYPE="{bt}" xsi:type="STANDARD-LENGTH-TYPE"'
    if enc: a+=f' BASE-TYPE-ENCODING="{enc}"'
    if hl is not None: a+=f' IS-HIGHLOW-BYTE-ORDER="{"true" if hl else "false"}"'
    return f'<DIAG-CODED-TYPE{a}><BIT-LENGTH>{bl}</BIT-LENGTH></DIAG-CODED-TYPE>'
def dop_xml(i,nm,dct,pt):
    return f'<DATA-OBJECT-PROP ID="{i}"><SHORT-NAME>{nm}</SHORT-NAME><COMPU-METHOD><CATEGORY>IDENTICAL</CATEGORY></COMPU-METHOD>{dct}<PHYSICAL-TYPE BASE-DATA-TYPE="{pt}"/></DATA-OBJECT-PROP>'
# ---- IR nodes are dicts ----
def gen_leaf(g):
    r=g.rnd; k=r.choice(["u","u","i","bytes","minmax","leading"])
    i=g.nid("dop")
    if k=="u":
        bl=r.choice([8,16,24,32,3,5,12]); hl=r.choice([True,False,None])
        d={"k":"u","id":i,"bl":bl,"hl":hl in (True,None)}
        g.dops.append(dop_xml(i,i,dct_std("A_UINT32",bl,None,hl),"A_UINT32"))
    elif k=="i":
        bl=r.choice([8,16,32,7,13]); hl=r.choice([True,False]); enc=r.choice([None,"2C","1C","SM"])
        d={"k":"i","id":i,"bl":bl,"hl":hl,"enc":enc}
        g.dops.append(dop_xml(i,i,dct_std("A_INT32",bl,enc,hl),"A_INT32"))
    elif k=="bytes":
        n=r.randint(1,4); d={"k":"bytes","id":i,"n":n}
        g.dops.append(dop_xml(i,i,dct_std("A_BYTEFIELD",8*n),"A_BYTEFIELD"))
    elif k=="minmax":
        mn=r.randint(0,2); mx=r.choice([None,mn+r.randint(0,3)]); term=r.choice(["ZERO","HEX-FF"])
        d={"k":"minmax","id":i,"min":mn,"max":mx,"term":term}
        mxs=f"<MAX-LENGTH>{mx}</MAX-LENGTH>" if mx is not None else ""
        g.dops.append(dop_xml(i,i,f'<DIAG-CODED-TYPE BASE-DATA-TYPE="A_BYTEFIELD" TERMINATION="{term}" xsi:type="MIN-MAX-LENGTH-TYPE">{mxs}<MIN-LENGTH>{mn}</MIN-LENGTH></DIAG-CODED-TYPE>',"A_BYTEFIELD"))
    else:
        bl=r.choice([8,16]); hl=r.choice([True,False])
        d={"k":"leading","id":i,"bl":bl,"hl":hl}
        g.dops.append(dop_xml(i,i,f'<DIAG-CODED-TYPE BASE-DATA-TYPE="A_BYTEFIELD" IS-HIGHLOW-BYTE-ORDER="{"true" if hl else "false"}" xsi:type="LEADING-LENGTH-INFO-TYPE"><BIT-LENGTH>{bl}</BIT-LENGTH></DIAG-CODED-TYPE>',"A_BYTEFIELD"))
    return d
def static_bytes(d):
    k=d["k"]
    if k in("u","i"): return (d["bl"]+7)//8 if d["bl"]%8==0 else None  # sub-byte handled separately
    if k=="bytes": return d["n"]
    if k=="struct":
        return d["bs"] if d["bs"] is not None else d["natural"]
    if k=="sfield": return d["n"]*d["isz"]
    return None
def gen_struct(g,depth,must_static=False):
    r=g.rnd; i=g.nid("st"); params=[]; pos=0; dynamic=False
    for j in range(r.randint(1,4)):
        kind=r.random()
        if kind<0.12 and not dynamic:
            # packed sub-byte pair in one byte
            a=r.randint(1,6); b=r.randint(1,7-a) 
            da={"k":"u","id":g.nid("dop"),"bl":a,"hl":True}; db={"k":"u","id":g.nid("dop"),"bl":b,"hl":True}
            for dd in (da,db): g.dops.append(dop_xml(dd["id"],dd["id"],dct_std("A_UINT32",dd["bl"]),"A_UINT32"))
            bp=r.randint(0,8-a-b)
            params.append({"name":f"p{j}a","dop":da,"pos":pos,"bit":bp,"size":1})
            params.append({"name":f"p{j}b","dop":db,"pos":pos,"bit":bp+a,"size":1})
            pos+=1; continue
        if kind<0.2 and not dynamic:
            n=r.choice([8,16,4,12])
            params.append({"name":f"p{j}","reserved":n,"pos":pos,"bit":0,"size":(n+7)//8}); pos+=(n+7)//8; continue
        if kind<0.3 and not dynamic:
            bl=r.choice([8,16]); v=r.randrange(1<<bl)
            params.append({"name":f"p{j}","const":v,"bl":bl,"pos":pos,"bit":0,"size":bl//8}); pos+=bl//8; continue
        if depth>0 and kind<0.5:
            d=gen_complex(g,depth-1,must_static or False)
        else:
            d=gen_leaf(g)
            while must_static and d["k"] in ("minmax","leading"): d=gen_leaf(g)
        sb=None
        if d["k"] in("u","i"): sb=(d["bl"]+7)//8
        else: sb=static_bytes(d)
        if sb is None or dynamic:
            dynamic=True
            params.append({"name":f"p{j}","dop":d,"pos":None,"bit":0,"size":None})
        else:
            gap=r.choice([0,0,0,1])
            expl=r.random()<0.7
            params.append({"name":f"p{j}","dop":d,"pos":pos+gap if (expl or gap) else None,"bit":0,"size":sb,"abs":pos+gap})
            pos+=gap+sb
    natural=None if dynamic else pos
    bs=None
    if natural is not None and r.random()<0.3: bs=natural+r.randint(0,2)
    st={"k":"struct","id":i,"params":params,"bs":bs,"natural":natural}
    px=[]
    for p in params:
        bpx=f"<BYTE-POSITION>{p['pos']}</BYTE-POSITION>" if p.get("pos") is not None else ""
        bix=f"<BIT-POSITION>{p['bit']}</BIT-POSITION>" if p.get("bit") else ""
        if "reserved" in p: px.append(f'<PARAM xsi:type="RESERVED"><SHORT-NAME>{p["name"]}</SHORT-NAME>{bpx}{bix}<BIT-LENGTH>{p["reserved"]}</BIT-LENGTH></PARAM>')
        elif "const" in p: px.append(f'<PARAM xsi:type="CODED-CONST"><SHORT-NAME>{p["name"]}</SHORT-NAME>{bpx}<CODED-VALUE>{p["const"]}</CODED-VALUE>{dct_std("A_UINT32",p["bl"])}</PARAM>')
        else: px.append(f'<PARAM xsi:type="VALUE"><SHORT-NAME>{p["name"]}</SHORT-NAME>{bpx}{bix}<DOP-REF ID-REF="{p["dop"]["id"]}"/></PARAM>')
    bsx=f"<BYTE-SIZE>{bs}</BYTE-SIZE>" if bs is not None else ""
    st["xml_params"]="".join(px)
    g.structs.append(f'<STRUCTURE ID="{i}"><SHORT-NAME>{i}</SHORT-NAME>{bsx}<PARAMS>{st["xml_params"]}</PARAMS></STRUCTURE>')
    return st
def gen_complex(g,depth,must_static=False):
    r=g.rnd
    k=r.choice(["struct","struct","sfield","dlfield","eopf","mux"]) if not must_static else r.choice(["struct","sfield"])
    if k=="struct": return gen_struct(g,depth,must_static)
    if k=="sfield":
        st=gen_struct(g,0,True); sz=static_bytes(st); n=r.randint(1,3); isz=sz+r.randint(0,1); i=g.nid("sf")
        g.fields.append(("STATIC-FIELD",f'<STATIC-FIELD ID="{i}"><SHORT-NAME>{i}</SHORT-NAME><BASIC-STRUCTURE-REF ID-REF="{st["id"]}"/><FIXED-NUMBER-OF-ITEMS>{n}</FIXED-NUMBER-OF-ITEMS><ITEM-BYTE-SIZE>{isz}</ITEM-BYTE-SIZE></STATIC-FIELD>'))
        return {"k":"sfield","id":i,"st":st,"n":n,"isz":isz}
    if k=="dlfield":
        st=gen_struct(g,0,r.random()<0.7); i=g.nid("dl"); cd={"k":"u","id":g.nid("dop"),"bl":8,"hl":True}
        g.dops.append(dop_xml(cd["id"],cd["id"],dct_std("A_UINT32",8),"A_UINT32"))
        off=r.choice([1,1,2])
        g.fields.append(("DYNAMIC-LENGTH-FIELD",f'<DYNAMIC-LENGTH-FIELD ID="{i}"><SHORT-NAME>{i}</SHORT-NAME><BASIC-STRUCTURE-REF ID-REF="{st["id"]}"/><OFFSET>{off}</OFFSET><DETERMINE-NUMBER-OF-ITEMS><BYTE-POSITION>0</BYTE-POSITION><DATA-OBJECT-PROP-REF ID-REF="{cd["id"]}"/></DETERMINE-NUMBER-OF-ITEMS></DYNAMIC-LENGTH-FIELD>'))
        return {"k":"dlfield","id":i,"st":st,"off":off}
    if k=="eopf":
        st=gen_struct(g,0,True); i=g.nid("eo")
        g.fields.append(("END-OF-PDU-FIELD",f'<END-OF-PDU-FIELD ID="{i}"><SHORT-NAME>{i}</SHORT-NAME><BASIC-STRUCTURE-REF ID-REF="{st["id"]}"/></END-OF-PDU-FIELD>'))
        return {"k":"eopf","id":i,"st":st}
    if k=="mux":
        i=g.nid("mx"); kd={"k":"u","id":g.nid("dop"),"bl":8,"hl":True}
        g.dops.append(dop_xml(kd["id"],kd["id"],dct_std("A_UINT32",8),"A_UINT32"))
        cases=[]; lo=r.randint(0,3)
        for c in range(r.randint(1,3)):
            hi=lo+r.randint(0,2); st=gen_struct(g,0,r.random()<0.7) if r.random()<0.85 else None
            cases.append({"name":f"c{c}","lo":lo,"hi":hi,"st":st}); lo=hi+1+r.randint(0,2)
        bp=r.choice([1,1,2])
        cx="".join(f'<CASE><SHORT-NAME>{c["name"]}</SHORT-NAME>'+(f'<STRUCTURE-REF ID-REF="{c["st"]["id"]}"/>' if c["st"] else "")+f'<LOWER-LIMIT>{c["lo"]}</LOWER-LIMIT><UPPER-LIMIT>{c["hi"]}</UPPER-LIMIT></CASE>' for c in cases)
        g.muxs.append(f'<MUX ID="{i}"><SHORT-NAME>{i}</SHORT-NAME><BYTE-POSITION>{bp}</BYTE-POSITION><SWITCH-KEY><BYTE-POSITION>0</BYTE-POSITION><DATA-OBJECT-PROP-REF ID-REF="{kd["id"]}"/></SWITCH-KEY><CASES>{cx}</CASES></MUX>')
        return {"k":"mux","id":i,"bp":bp,"cases":cases}
# ---- values + reference encode ----
class Ref:
    def __init__(s): s.buf=bytearray(); 
    def put(s,pos,data,mask=None):
        if len(s.buf)<pos+len(data): s.buf+=bytes(pos+len(data)-len(s.buf))
        for i,b in enumerate(data):
            m=0xff if mask is None else mask[i]
            s.buf[pos+i]=(s.buf[pos+i]&~m)|(b&m)
    def ensure(s,n):
        if len(s.buf)<n: s.buf+=bytes(n-len(s.buf))
def raw_int(d,v):
    n=d["bl"]
    if d["k"]=="u": return v
    enc=d.get("enc")
    if enc in(None,"2C"): return v&((1<<n)-1)
    if enc=="1C": return v if v>=0 else ((1<<n)-1)+v
    if enc=="SM": return v if v>=0 else (1<<(n-1))|(-v)
def gen_val(g,d,eop):
    r=g.rnd; k=d["k"]
    if k=="u": return r.choice([0,(1<<d["bl"])-1,r.randrange(1<<d["bl"])])
    if k=="i":
        m=(1<<(d["bl"]-1))-1; return r.choice([0,m,-m,r.randint(-m,m)])
    if k=="bytes": return bytes(r.randrange(256) for _ in range(d["n"]))
    if k=="minmax":
        mx=d["max"] if d["max"] is not None else d["min"]+3
        n=r.randint(d["min"],mx); t=0 if d["term"]=="ZERO" else 0xff
        return bytes(r.choice([x for x in range(1,255)]) for _ in range(n))
    if k=="leading": return bytes(r.randrange(256) for _ in range(r.randint(0,3)))
    if k=="struct": 
        out={}
        for idx,p in enumerate(d["params"]):
            if "dop" in p: out[p["name"]]=gen_val(g,p["dop"],eop and idx==len(d["params"])-1)
        return out
    if k=="sfield": return [gen_val(g,d["st"],False) for _ in range(d["n"])]
    if k=="dlfield": return [gen_val(g,d["st"],False) for _ in range(r.randint(0,3))]
    if k=="eopf": return [gen_val(g,d["st"],False) for _ in range(r.randint(0,3))]
    if k=="mux":
        c=r.choice(d["cases"]); return (c["name"], gen_val(g,c["st"],eop) if c["st"] else {})
def enc(ref,d,v,pos,bit,eop):
    """returns new cursor"""
    k=d["k"]
    if k in("u","i"):
        n=d["bl"]; raw=raw_int(d,v); nb=(bit+n+7)//8
        w=(raw<<bit).to_bytes(nb,"big"); m=(((1<<n)-1)<<bit).to_bytes(nb,"big")
        if not d["hl"]: w=w[::-1]; m=m[::-1]
        ref.put(pos,w,m); return pos+nb
    if k=="bytes": ref.put(pos,v); return pos+len(v)
    if k=="minmax":
        ref.put(pos,v); pos+=len(v)
        if not eop and len(v)!=d["max"]:
            ref.put(pos,bytes([0 if d["term"]=="ZERO" else 0xff])); pos+=1
        ref.ensure(pos); return pos
    if k=="leading":
        nb=d["bl"]//8; l=len(v).to_bytes(nb,"big" if d["hl"] else "little"); ref.put(pos,l); ref.put(pos+nb,v); ref.ensure(pos+nb+len(v)); return pos+nb+len(v)
    if k=="struct":
        origin=pos; cur=pos; ref.ensure(pos)
        for idx,p in enumerate(d["params"]):
            last=idx==len(d["params"])-1
            ppos=origin+p["pos"] if p.get("pos") is not None else cur
            if "reserved" in p:
                cur=ppos+(p["bit"]+p["reserved"]+7)//8; ref.ensure(cur)
            elif "const" in p:
                cur=enc(ref,{"k":"u","bl":p["bl"],"hl":True},p["const"],ppos,0,False)
            else:
                cur=enc(ref,p["dop"],v[p["name"]],ppos,p["bit"],eop and last)
        if d["bs"] is not None:
            end=origin+d["bs"]; ref.ensure(end); cur=max(cur,end) if cur<=end else cur
            cur=end
        return cur
    if k=="sfield":
        cur=pos
        for it in v:
            e=enc(ref,d["st"],it,cur,0,False); cur=cur+d["isz"]; ref.ensure(cur)
        return cur
    if k=="dlfield":
        ref.put(pos,bytes([len(v)])); cur=pos+d["off"]; ref.ensure(cur)
        for i,it in enumerate(v): cur=enc(ref,d["st"],it,cur,0,eop and i==len(v)-1)
        return cur
    if k=="eopf":
        cur=pos; ref.ensure(pos)
        for i,it in enumerate(v): cur=enc(ref,d["st"],it,cur,0,eop and i==len(v)-1)
        return cur
    if k=="mux":
        c=[c for c in d["cases"] if c["name"]==v[0]][0]
        ref.put(pos,bytes([c["lo"]])); cur=pos+1
        if c["st"] is not None: cur=enc(ref,c["st"],v[1],pos+d["bp"],0,eop)
        return cur
def same(d,v,b):
    k=d["k"]
    if k in("u","i"): return v==b
    if k in("bytes","minmax","leading"): return bytes(v)==bytes(b)
    if k=="struct":
        if not isinstance(b,dict): return False
        for p in d["params"]:
            if "dop" in p:
                if p["name"] not in b or not same(p["dop"],v[p["name"]],b[p["name"]]): return False
            elif "const" in p:
                if b.get(p["name"])!=p["const"]: return False
        return True
    if k in("sfield","dlfield","eopf"):
        return isinstance(b,list) and len(b)==len(v) and all(same(d["st"],x,y) for x,y in zip(v,b))
    if k=="mux":
        if not (isinstance(b,tuple) and b[0]==v[0]): return False
        c=[c for c in d["cases"] if c["name"]==v[0]][0]
        return same(c["st"],v[1],b[1]) if c["st"] else True
def feats(d,acc):
    acc.add(d["k"])
    if d["k"]=="struct":
        if d["bs"] is not None: acc.add("bytesize")
        for p in d["params"]:
            if "dop" in p: feats(p["dop"],acc)
            if p.get("bit"): acc.add("bitpos")
    elif d["k"] in("sfield","dlfield","eopf"): feats(d["st"],acc)
    elif d["k"]=="mux":
        for c in d["cases"]:
            if c["st"]: feats(c["st"],acc)
            else: acc.add("mux_nostruct")
def run(seed,N):
    rnd=random.Random(seed); stats={}; ex={}
    for it in range(N):
        g=G(rnd)
        top=gen_struct(g,2)
        # eopf only allowed as last param of top-level & nested last: crude filter
        xml=f'<?xml version="1.0"?><ODX MODEL-VERSION="2.2.0" {XSI}><DIAG-LAYER-CONTAINER ID="c"><SHORT-NAME>c</SHORT-NAME><BASE-VARIANTS><BASE-VARIANT ID="bv"><SHORT-NAME>bv</SHORT-NAME><DIAG-DATA-DICTIONARY-SPEC><DATA-OBJECT-PROPS>{"".join(g.dops)}</DATA-OBJECT-PROPS><STRUCTURES>{"".join(g.structs)}</STRUCTURES>'
        for tag in ["STATIC-FIELD","END-OF-PDU-FIELD","DYNAMIC-LENGTH-FIELD"]:
            fs=[x for t,x in g.fields if t==tag]
            if fs: xml+=f"<{tag}S>{''.join(fs)}</{tag}S>"
        if g.muxs: xml+=f"<MUXS>{''.join(g.muxs)}</MUXS>"
        xml+=f'</DIAG-DATA-DICTIONARY-SPEC><DIAG-COMMS><DIAG-SERVICE ID="s"><SHORT-NAME>s</SHORT-NAME><REQUEST-REF ID-REF="rq"/></DIAG-SERVICE></DIAG-COMMS><REQUESTS><REQUEST ID="rq"><SHORT-NAME>rq</SHORT-NAME><PARAMS>{top["xml_params"]}</PARAMS></REQUEST></REQUESTS></BASE-VARIANT></BASE-VARIANTS></DIAG-LAYER-CONTAINER></ODX>'
        f=set(); feats(top,f)
        def bad_eop(d,is_last):
            # eopf / unbounded things must be last everywhere
            if d["k"]=="eopf": return not is_last
            if d["k"]=="struct":
                n=len(d["params"])
                return any(bad_eop(p["dop"], is_last and i==n-1) for i,p in enumerate(d["params"]) if "dop" in p)
            if d["k"] in("sfield","dlfield"): return bad_eop(d["st"],False) 
            if d["k"]=="mux": return any(bad_eop(c["st"],is_last) for c in d["cases"] if c["st"])
            return False
        if bad_eop(top,True): stats["skipped_eop"]=stats.get("skipped_eop",0)+1; continue
        try:
            db=Database(); db.add_odx_file(io.BytesIO(xml.encode())); db.refresh()
        except Exception as e:
            k=("LOAD",type(e).__name__,str(e)[:80]); stats[k]=stats.get(k,0)+1; ex.setdefault(k,xml); continue
        rq=db.base_variants.bv.services.s.request
        for t in range(3):
            v=gen_val(g,top,True)
            ref=Ref(); enc(ref,dict(top,bs=None),v,0,0,True)
            exp=bytes(ref.buf)
            with warnings.catch_warnings(record=True) as w:
                warnings.simplefilter("always")
                try: got=bytes(rq.encode(**v)); e=None
                except Exception as e_: got=None; e=e_
            if got==exp:
                try:
                    with warnings.catch_warnings():
                        warnings.simplefilter("ignore")
                        back=rq.decode(got)
                    key="ok" if same(top,v,back) else ("DEC_DIFF",tuple(sorted(f)))
                except Exception as e2:
                    key=("DEC_EXC",type(e2).__name__,str(e2)[:60],tuple(sorted(f)))
            elif got is None: key=("ENC_EXC",type(e).__name__,str(e)[:70])
            else: key=("DIFF",tuple(sorted(f)))
            stats[key]=stats.get(key,0)+1
            if key!="ok" and key not in ex: ex[key]=(v,exp.hex(),got.hex() if got else None,xml)
    return stats,ex
if __name__=="__main__":
    st,ex=run(int(sys.argv[1]),int(sys.argv[2]))
    for k,v in sorted(st.items(),key=lambda kv:-kv[1]): print(v,k)
    import pickle; pickle.dump(ex,open(os.path.join(tempfile.gettempdir(),"odx_probe_ex.pkl"),"wb"))
