import io, random, itertools, warnings, sys
from odxtools.database import Database
from odxtools.exceptions import OdxError
PRI={"PROTOCOL":1,"FUNCTIONAL-GROUP":2,"BASE-VARIANT":3,"ECU-VARIANT":4,"ECU-SHARED-DATA":100}
GROUP={"PROTOCOL":"PROTOCOLS","FUNCTIONAL-GROUP":"FUNCTIONAL-GROUPS","BASE-VARIANT":"BASE-VARIANTS","ECU-VARIANT":"ECU-VARIANTS","ECU-SHARED-DATA":"ECU-SHARED-DATAS"}
ALLOWED={"ECU-VARIANT":["BASE-VARIANT","ECU-SHARED-DATA"],"BASE-VARIANT":["FUNCTIONAL-GROUP","PROTOCOL","ECU-SHARED-DATA"],"FUNCTIONAL-GROUP":["PROTOCOL","ECU-SHARED-DATA"],"PROTOCOL":["ECU-SHARED-DATA"],"ECU-SHARED-DATA":[]}
CS='''<?xml version="1.0"?><ODX MODEL-VERSION="2.2.0"><COMPARAM-SPEC ID="CS.cs"><SHORT-NAME>cs</SHORT-NAME></COMPARAM-SPEC></ODX>'''
def gen(rnd):
    n=rnd.randint(2,5)
    order=["ECU-SHARED-DATA","PROTOCOL","FUNCTIONAL-GROUP","BASE-VARIANT","ECU-VARIANT"]
    layers=[]
    for i in range(n):
        t=rnd.choice(order)
        layers.append({"name":f"L{i}","type":t,"parents":[],"dops":{}, "svcs":{}})
    layers.sort(key=lambda l: order.index(l["type"]))
    for i,l in enumerate(layers):
        cands=[p for p in layers[:i] if p["type"] in ALLOWED[l["type"]]]
        rnd.shuffle(cands)
        k=rnd.randint(0,min(3,len(cands)))
        chosen=cands[:k]
        if l["type"]=="ECU-VARIANT":
            bvs=[c for c in chosen if c["type"]=="BASE-VARIANT"]
            for extra in bvs[1:]: chosen.remove(extra)
        for p in chosen:
            l["parents"].append({"layer":p["name"],"ni_dops":[x for x in "ab" if rnd.random()<0.25],"ni_svcs":[x for x in "ab" if rnd.random()<0.25]})
        for nm in "ab":
            if rnd.random()<0.45: l["dops"][nm]=f"uid:{l['name']}:dop:{nm}"
            if rnd.random()<0.45: l["svcs"][nm]=f"uid:{l['name']}:svc:{nm}"
    return layers
def xml(layers):
    out=['<?xml version="1.0"?><ODX MODEL-VERSION="2.2.0" xmlns:xsi="http://www.w3.org/2001/XMLSchema-instance"><DIAG-LAYER-CONTAINER ID="DLC.c"><SHORT-NAME>c</SHORT-NAME>']
    for t in ["ECU-SHARED-DATA","PROTOCOL","FUNCTIONAL-GROUP","BASE-VARIANT","ECU-VARIANT"]:
        ls=[l for l in layers if l["type"]==t]
        if not ls: continue
        out.append(f"<{GROUP[t]}>")
        for l in ls:
            n=l["name"]
            out.append(f'<{t} ID="DL.{n}"><SHORT-NAME>{n}</SHORT-NAME>')
            if l["dops"]:
                out.append("<DIAG-DATA-DICTIONARY-SPEC><DATA-OBJECT-PROPS>")
                for nm,uid in l["dops"].items():
                    out.append(f'<DATA-OBJECT-PROP ID="{n}.dop.{nm}"><SHORT-NAME>{nm}</SHORT-NAME><LONG-NAME>{uid}</LONG-NAME><COMPU-METHOD><CATEGORY>IDENTICAL</CATEGORY></COMPU-METHOD><DIAG-CODED-TYPE BASE-DATA-TYPE="A_UINT32" xsi:type="STANDARD-LENGTH-TYPE"><BIT-LENGTH>8</BIT-LENGTH></DIAG-CODED-TYPE><PHYSICAL-TYPE BASE-DATA-TYPE="A_UINT32"/></DATA-OBJECT-PROP>')
                out.append("</DATA-OBJECT-PROPS></DIAG-DATA-DICTIONARY-SPEC>")
            if l["svcs"]:
                out.append("<DIAG-COMMS>")
                for nm,uid in l["svcs"].items():
                    out.append(f'<DIAG-SERVICE ID="{n}.svc.{nm}"><SHORT-NAME>{nm}</SHORT-NAME><LONG-NAME>{uid}</LONG-NAME><REQUEST-REF ID-REF="{n}.rq.{nm}"/></DIAG-SERVICE>')
                out.append("</DIAG-COMMS><REQUESTS>")
                for nm,uid in l["svcs"].items():
                    out.append(f'<REQUEST ID="{n}.rq.{nm}"><SHORT-NAME>rq_{nm}</SHORT-NAME></REQUEST>')
                out.append("</REQUESTS>")
            if t=="PROTOCOL":
                out.append('<COMPARAM-SPEC-REF ID-REF="CS.cs" DOCREF="cs" DOCTYPE="COMPARAM-SPEC"/>')
            if l["parents"]:
                out.append("<PARENT-REFS>")
                for p in l["parents"]:
                    pt=[x for x in layers if x["name"]==p["layer"]][0]["type"]
                    out.append(f'<PARENT-REF ID-REF="DL.{p["layer"]}" DOCREF="{p["layer"]}" DOCTYPE="LAYER" xsi:type="{pt}-REF">')
                    if p["ni_svcs"]:
                        out.append("<NOT-INHERITED-DIAG-COMMS>"+"".join(f'<NOT-INHERITED-DIAG-COMM><DIAG-COMM-SNREF SHORT-NAME="{x}"/></NOT-INHERITED-DIAG-COMM>' for x in p["ni_svcs"])+"</NOT-INHERITED-DIAG-COMMS>")
                    if p["ni_dops"]:
                        out.append("<NOT-INHERITED-DOPS>"+"".join(f'<NOT-INHERITED-DOP><DOP-BASE-SNREF SHORT-NAME="{x}"/></NOT-INHERITED-DOP>' for x in p["ni_dops"])+"</NOT-INHERITED-DOPS>")
                    out.append("</PARENT-REF>")
                out.append("</PARENT-REFS>")
            out.append(f"</{t}>")
        out.append(f"</{GROUP[t]}>")
    out.append("</DIAG-LAYER-CONTAINER></ODX>")
    return "".join(out).encode()
class Conflict(Exception): pass
def view(layers, name, cat, ni):
    l=[x for x in layers if x["name"]==name][0]
    if l["type"]=="ECU-SHARED-DATA": return dict(l[cat])
    cand={}  # nm -> list of (prio, uid)
    for p in l["parents"]:
        pl=[x for x in layers if x["name"]==p["layer"]][0]
        pv=view(layers,p["layer"],cat,ni)
        pr=PRI[pl["type"]]
        for nm,uid in pv.items():
            if nm in p[ni]: continue
            cand.setdefault(nm,[]).append((pr,uid))
    out={}
    for nm,cs in cand.items():
        top=max(c[0] for c in cs)
        uids={u for pr,u in cs if pr==top}
        if len(uids)>1 and nm not in l[cat]: raise Conflict()
        out[nm]=sorted(uids)[0]
    out.update(l[cat])
    return out
rnd=random.Random(int(sys.argv[1]) if len(sys.argv)>1 else 1)
stats={"ok":0,"conflict_both":0,"mismatch":0,"ref_conflict_only":0,"impl_raise_only":0}
ex=[]
for it in range(3000):
    layers=gen(rnd)
    db=Database(); 
    with warnings.catch_warnings():
        warnings.simplefilter("ignore")
        db.add_odx_file(io.BytesIO(CS.encode())); db.add_odx_file(io.BytesIO(xml(layers)))
        try:
            db.refresh(); raised=None
        except OdxError as e: raised=e
        except Exception as e:
            raised=e; 
    try:
        exp={l["name"]:(view(layers,l["name"],"dops","ni_dops"),view(layers,l["name"],"svcs","ni_svcs")) for l in layers}
        refc=False
    except Conflict: refc=True
    if raised is not None or refc:
        if raised is not None and refc: stats["conflict_both"]+=1
        elif refc: stats["ref_conflict_only"]+=1; ex.append(("refonly",layers))
        else: stats["impl_raise_only"]+=1; ex.append(("implonly",type(raised).__name__,str(raised)[:100],layers))
        continue
    good=True
    for l in layers:
        dl=db.diag_layers[l["name"]]
        got_d={d.short_name:d.long_name for d in dl.diag_data_dictionary_spec.data_object_props}
        got_s={d.short_name:d.long_name for d in dl.services}
        if (got_d,got_s)!=exp[l["name"]]:
            good=False; ex.append(("mismatch",l["name"],got_d,got_s,exp[l["name"]],layers)); break
    stats["ok" if good else "mismatch"]+=1
print(stats)
for e in ex[:4]: print(e)
