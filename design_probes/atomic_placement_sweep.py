import itertools, random, warnings
from odxtools.encodestate import EncodeState
from odxtools.decodestate import DecodeState
from odxtools.odxtypes import DataType
from odxtools.encoding import Encoding
from odxtools.exceptions import OdxError

def ref_place(raw, bitlen, bitpos, highlow):
    n = (bitpos + bitlen + 7)//8
    word = raw << bitpos
    b = word.to_bytes(n, "big")
    if not highlow: b = b[::-1]
    return b

def ref_raw(v, bitlen, dt, enc):
    if dt == DataType.A_UINT32:
        if enc in (None, Encoding.NONE):
            return v if 0 <= v < (1<<bitlen) else None
    if dt == DataType.A_INT32:
        if enc in (None, Encoding.TWOC):
            if -(1<<(bitlen-1)) <= v < (1<<(bitlen-1)): return v & ((1<<bitlen)-1)
            return None
        if enc == Encoding.ONEC:
            m=(1<<(bitlen-1))-1
            if -m <= v <= m: return v if v>=0 else ((1<<bitlen)-1)+v
            return None
        if enc == Encoding.SM:
            m=(1<<(bitlen-1))-1
            if -m <= v <= m: return v if v>=0 else (1<<(bitlen-1))|(-v)
            return None
rnd = random.Random(1)
dis = {}
tot=0
for dt, enc in [(DataType.A_UINT32,None),(DataType.A_INT32,None),(DataType.A_INT32,Encoding.ONEC),(DataType.A_INT32,Encoding.SM)]:
  for bitlen in range(1,65):
    for bitpos in range(8):
      for hl in (True, False):
        for _ in range(6):
            if dt==DataType.A_UINT32: v = rnd.choice([0,1,(1<<bitlen)-1, rnd.randrange(1<<bitlen)])
            else: v = rnd.choice([0,1,-1,(1<<(bitlen-1))-1, -((1<<(bitlen-1))-1), -(1<<(bitlen-1)), rnd.randrange(-(1<<(bitlen-1)), 1<<(bitlen-1))])
            raw = ref_raw(v, bitlen, dt, enc)
            tot+=1
            st = EncodeState(cursor_bit_position=bitpos)
            try:
                st.emplace_atomic_value(internal_value=v, bit_length=bitlen, base_data_type=dt, base_type_encoding=enc, is_highlow_byte_order=hl, used_mask=None)
                got = bytes(st.coded_message)
            except OdxError as e:
                got = None
            except Exception as e:
                got = ("EXC", type(e).__name__)
            exp = None if raw is None else ref_place(raw, bitlen, bitpos, hl)
            if got != exp:
                k=(dt.name, enc, "exp_reject" if exp is None else "exp_ok", "got_reject" if got is None else ("exc" if isinstance(got,tuple) else "got_ok"))
                dis.setdefault(k, []).append((bitlen,bitpos,hl,v, exp and exp.hex(), got if not isinstance(got,bytes) else got.hex()))
            elif exp is not None:
                ds = DecodeState(coded_message=exp, cursor_bit_position=bitpos)
                back = ds.extract_atomic_value(bit_length=bitlen, base_data_type=dt, base_type_encoding=enc, is_highlow_byte_order=hl)
                if back != v and not (v==0):
                    dis.setdefault(("decode",dt.name,enc),[]).append((bitlen,bitpos,hl,v,back))
print("total", tot)
for k,v in dis.items(): print(k, len(v), v[:3])
