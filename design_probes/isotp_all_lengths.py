from odxtools.isotp_state_machine import IsoTpStateMachine
def segment(payload, fs=8, pad=None):
    n=len(payload); frames=[]
    if fs==8 and n<=7 or fs>8 and n<=7:
        f=bytes([n])+payload
    elif fs>8 and n<=fs-2:
        f=bytes([0,n])+payload
    else: f=None
    if f is not None:
        if pad is not None: f=f+bytes([pad])*(fs-len(f))
        return [f]
    ff=bytes([0x10|(n>>8), n&0xff])+payload[:fs-2]; frames.append(ff)
    pos=fs-2; sn=1
    while pos<n:
        chunk=payload[pos:pos+fs-1]; pos+=fs-1
        fr=bytes([0x20|sn])+chunk
        if pad is not None: fr=fr+bytes([pad])*(fs-len(fr))
        frames.append(fr); sn=(sn+1)%16
    return frames
bad={}
for fs in (8,12,64):
  for pad in (None,0xAA,0x00):
    for n in range(1,4096):
        payload=bytes((i*7+n)&0xff for i in range(n))
        sm=IsoTpStateMachine([0x7e0])
        out=[]
        try:
            for fr in segment(payload,fs,pad):
                out+= [bytes(t[1]) for t in sm.decode_rx_frame(0x7e0, fr)]
        except Exception as e:
            out=("EXC",type(e).__name__)
        if out!=[payload]:
            bad.setdefault((fs,pad),[]).append(n)
for k,v in bad.items(): print(k, len(v), v[:12])
print("done")
