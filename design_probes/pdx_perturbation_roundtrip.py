import dataclasses, copy, io, sys, typing, enum, warnings, tempfile, os
_TMP=os.path.join(tempfile.mkdtemp(prefix="odxprobe_"),"o2.pdx")
import odxtools
from odxtools.writepdxfile import write_pdx_file
from odxtools.nameditemlist import NamedItemList
warnings.simplefilter("ignore")
def walk(obj, seen, out, path=""):
    if id(obj) in seen: return
    if dataclasses.is_dataclass(obj) and not isinstance(obj,type):
        seen.add(id(obj)); out.append(obj)
        for f in dataclasses.fields(obj):
            walk(getattr(obj,f.name), seen, out)
    elif isinstance(obj,(list,tuple)):
        seen.add(id(obj))
        for x in obj: walk(x,seen,out)
def load(): return odxtools.load_pdx_file("/repo/examples/somersault.pdx")
db=load()
objs=[]; walk(list(db.diag_layer_containers)+list(db.comparam_subsets)+list(db.comparam_specs), set(), objs)
classes={}
for o in objs: classes.setdefault(type(o).__name__,[]).append(o)
print("classes", len(classes), "objects", len(objs))
nfields=0; cand=[]
for cn,os_ in classes.items():
    for f in dataclasses.fields(os_[0]):
        nfields+=1
        t=str(f.type)
        if t in ("typing.Optional[str]","str","typing.Optional[int]","int","typing.Optional[bool]"):
            if f.name in ("short_name",) or "ref" in f.name or f.name.endswith("_id"): continue
            cand.append((cn,f.name,t))
print("fields", nfields, "simple-perturbable", len(cand))
def first_diff(a,b,path=""):
    if dataclasses.is_dataclass(a) and type(a)==type(b):
        for f in dataclasses.fields(a):
            r=first_diff(getattr(a,f.name),getattr(b,f.name),path+"/"+type(a).__name__+"."+f.name)
            if r: return r
        return None
    if isinstance(a,(list,tuple)) and isinstance(b,(list,tuple)):
        if len(a)!=len(b): return (path,"len")
        for x,y in zip(a,b):
            r=first_diff(x,y,path)
            if r: return r
        return None
    return None if a==b else (path,repr(a)[:40],repr(b)[:40])
import random
rnd=random.Random(1)
results={}
for cn,fn,t in cand[:400]:
    db=load()
    objs=[]; walk(list(db.diag_layer_containers)+list(db.comparam_subsets)+list(db.comparam_specs), set(), objs)
    tgt=[o for o in objs if type(o).__name__==cn][0]
    old=getattr(tgt,fn)
    if "str" in t: new="a&b<c>\"d'e"
    elif "int" in t: new=(old or 0)+1
    else: new=not bool(old)
    try:
        setattr(tgt,fn,new)
        write_pdx_file(_TMP, db)
        db2=odxtools.load_pdx_file(_TMP)
        d=None
        for a,b in zip(list(db.diag_layer_containers)+list(db.comparam_subsets)+list(db.comparam_specs), list(db2.diag_layer_containers)+list(db2.comparam_subsets)+list(db2.comparam_specs)):
            d=first_diff(a,b)
            if d: break
        results[(cn,fn)]="OK" if d is None else ("DIFF",d[0].split("/")[-1])
    except Exception as e:
        results[(cn,fn)]=("EXC",type(e).__name__,str(e)[:60])
ok=sum(1 for v in results.values() if v=="OK")
print("ok",ok,"bad",len(results)-ok)
for k,v in results.items():
    if v!="OK": print(k,v)
