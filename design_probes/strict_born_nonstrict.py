import sys, importlib.util
spec = importlib.util.spec_from_file_location("odxtools", "/repo/odxtools/__init__.py", submodule_search_locations=["/repo/odxtools"])
mod = importlib.util.module_from_spec(spec)
sys.modules["odxtools"] = mod
import odxtools.exceptions as ex
ex.strict_mode = False
spec.loader.exec_module(mod)
import odxtools, odxtools.decodestate as ds
print("born non-strict: decodestate.strict_mode =", ds.strict_mode, " exceptions.strict_mode =", odxtools.exceptions.strict_mode)
from odxtools.decodestate import DecodeState
from odxtools.odxtypes import DataType
st = DecodeState(coded_message=b"\xff\xfe")
print(repr(st.extract_atomic_value(bit_length=16, base_data_type=DataType.A_UTF8STRING, base_type_encoding=None, is_highlow_byte_order=True)))
