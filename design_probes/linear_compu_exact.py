from fractions import Fraction as F
import itertools, math
from odxtools.compumethods.compuinternaltophys import CompuInternalToPhys
from odxtools.compumethods.compumethod import CompuCategory
from odxtools.compumethods.compurationalcoeffs import CompuRationalCoeffs
from odxtools.compumethods.compuscale import CompuScale
from odxtools.compumethods.linearcompumethod import LinearCompuMethod
from odxtools.compumethods.limit import Limit, IntervalType
from odxtools.odxtypes import DataType
from odxtools.exceptions import OdxError
T={"i":DataType.A_INT32,"u":DataType.A_UINT32,"f":DataType.A_FLOAT64}
def mk(it,pt,off,fac,den,lo,hi):
    def lim(x):
        if x is None: return None
        v,t=x
        return Limit(value_raw=str(v), value_type=T[it], interval_type=t)
    sc=CompuScale(short_label=None,description=None,lower_limit=lim(lo),upper_limit=lim(hi),compu_inverse_value=None,compu_const=None,
        compu_rational_coeffs=CompuRationalCoeffs(value_type=T[pt],numerators=[off,fac],denominators=[den]),domain_type=T[it],range_type=T[pt])
    return LinearCompuMethod(category=CompuCategory.LINEAR,compu_internal_to_phys=CompuInternalToPhys(compu_scales=[sc],prog_code=None,compu_default_value=None),
        compu_phys_to_internal=None,physical_type=T[pt],internal_type=T[it])
def inlim(x,lo,hi):
    if lo is not None:
        v,t=lo
        if t==IntervalType.CLOSED and x<v: return False
        if t==IntervalType.OPEN and x<=v: return False
    if hi is not None:
        v,t=hi
        if t==IntervalType.CLOSED and x>v: return False
        if t==IntervalType.OPEN and x>=v: return False
    return True
def nearest(fr):
    fl=math.floor(fr); d=fr-fl
    if d<F(1,2): return {fl}
    if d>F(1,2): return {fl+1}
    return {fl,fl+1}
stats={}
def rec(k,ex):
    stats.setdefault(k,[]); 
    if len(stats[k])<3: stats[k].append(ex)
    stats[k+("n",)]=stats.get(k+("n",),0)+1
I=IntervalType
for it,pt in itertools.product("iu","iuf"):
  for off,fac,den in [(0,1,1),(1,2,1),(0,1,2),(3,-1,1),(0,-2,1),(5,3,4),(0,0.5,1),(0,1,3)]:
    if pt!="f" and isinstance(fac,float): continue
    for lo,hi in [(None,None),((2,I.CLOSED),(10,I.CLOSED)),((2,I.OPEN),(10,I.OPEN)),((2,I.CLOSED),(10,I.INFINITE)),(None,(10,I.OPEN))]:
        try: cm=mk(it,pt,off,fac,den,lo,hi)
        except Exception as e: rec(("ctor",type(e).__name__),(it,pt,off,fac,den,lo,hi)); continue
        dom=range(-20,40) if it=="i" else range(0,40)
        for i in dom:
            hi_eff = None if (hi and hi[1]==I.INFINITE) else hi
            v_ref=inlim(i,lo,hi_eff)
            v=cm.is_valid_internal_value(i)
            if v!=v_ref: rec(("valid_internal",it,pt),(off,fac,den,lo,hi,i,v,v_ref)); continue
            if not v: continue
            ex=(F(off)+F(fac)*i)/F(den)
            p=cm.convert_internal_to_physical(i)
            if pt=="f":
                if abs(F(p)-ex)>F(1,10**9): rec(("i2p_float",it,pt),(off,fac,den,i,p,float(ex)))
            else:
                if p not in nearest(ex): rec(("i2p_int",it,pt),(off,fac,den,i,p,float(ex)))
            inj = pt=="f" or abs(F(fac)/F(den))>=1
            if inj and fac!=0:
                if pt=="u" and p<0: continue
                if not cm.is_valid_physical_value(p): rec(("image_not_valid",it,pt),(off,fac,den,lo,hi,i,p)); continue
                try:
                    b=cm.convert_physical_to_internal(p)
                    if b!=i: rec(("roundtrip",it,pt),(off,fac,den,lo,hi,i,p,b))
                except OdxError as e: rec(("p2i_raises",it,pt),(off,fac,den,lo,hi,i,p))
for k,v in sorted(stats.items(), key=str):
    print(k, v)
