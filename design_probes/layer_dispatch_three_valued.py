# throw-away probe: dispatch of messages to services (C06) vs a three-valued reference
import io, random, sys, warnings, itertools
from odxtools.database import Database
from odxtools.exceptions import DecodeError, OdxError
XSI='xmlns:xsi="http://www.w3.org/2001/XMLSchema-instance"'
def cc(name,pos,val,bl=8):
    return f'<PARAM xsi:type="CODED-CONST"><SHORT-NAME>{name}</SHORT-NAME><BYTE-POSITION>{pos}</BYTE-POSITION><CODED-VALUE>{val}</CODED-VALUE><DIAG-CODED-TYPE BASE-DATA-TYPE="A_UINT32" xsi:type="STANDARD-LENGTH-TYPE"><BIT-LENGTH>{bl}</BIT-LENGTH></DIAG-CODED-TYPE></PARAM>'
def vp(name,pos,dop):
    return f'<PARAM xsi:type="VALUE"><SHORT-NAME>{name}</SHORT-NAME><BYTE-POSITION>{pos}</BYTE-POSITION><DOP-REF ID-REF="{dop}"/></PARAM>'
def mr(name,pos,rqpos,n):
    return f'<PARAM xsi:type="MATCHING-REQUEST-PARAM"><SHORT-NAME>{name}</SHORT-NAME><BYTE-POSITION>{pos}</BYTE-POSITION><REQUEST-BYTE-POS>{rqpos}</REQUEST-BYTE-POS><BYTE-LENGTH>{n}</BYTE-LENGTH></PARAM>'
ALPHA=[0x10,0x11,0x22]
def gen(rnd):
    svcs=[]
    for i in range(rnd.randint(1,4)):
        npre=rnd.choice([0,1,1,2,2,3]); pre=[rnd.choice(ALPHA) for _ in range(npre)]
        nval=rnd.choice([0,1,2]); vals=[rnd.choice([1,2]) for _ in range(nval)]  # byte sizes
        rq={"pre":pre,"vals":vals}
        resps=[]
        for j in range(rnd.randint(0,2)):
            first=(pre[0]+0x40) if pre else 0x50+i
            echo=rnd.choice([0,0,1,2]) if len(pre)>=2 else 0  # echo bytes from rq pos 1
            rv=[rnd.choice([1,2]) for _ in range(rnd.choice([0,1]))]
            resps.append({"first":first+j*0x80 if j else first,"echo":min(echo,len(pre)-1) if pre else 0,"vals":rv})
        svcs.append({"name":f"s{i}","rq":rq,"pos":resps})
    return svcs
def layer_xml(svcs):
    dops=''.join(f'<DATA-OBJECT-PROP ID="u{n}"><SHORT-NAME>u{n}</SHORT-NAME><COMPU-METHOD><CATEGORY>IDENTICAL</CATEGORY></COMPU-METHOD><DIAG-CODED-TYPE BASE-DATA-TYPE="A_UINT32" xsi:type="STANDARD-LENGTH-TYPE"><BIT-LENGTH>{8*n}</BIT-LENGTH></DIAG-CODED-TYPE><PHYSICAL-TYPE BASE-DATA-TYPE="A_UINT32"/></DATA-OBJECT-PROP>' for n in (1,2))
    dc=rqs=prs=""
    for s in svcs:
        n=s["name"]
        prr=''.join(f'<POS-RESPONSE-REF ID-REF="pr.{n}.{j}"/>' for j,_ in enumerate(s["pos"]))
        dc+=f'<DIAG-SERVICE ID="svc.{n}"><SHORT-NAME>{n}</SHORT-NAME><REQUEST-REF ID-REF="rq.{n}"/>'+(f'<POS-RESPONSE-REFS>{prr}</POS-RESPONSE-REFS>' if prr else '')+'</DIAG-SERVICE>'
        ps=""; pos=0
        for k,b in enumerate(s["rq"]["pre"]): ps+=cc(f"c{k}",pos,b); pos+=1
        for k,sz in enumerate(s["rq"]["vals"]): ps+=vp(f"v{k}",pos,f"u{sz}"); pos+=sz
        rqs+=f'<REQUEST ID="rq.{n}"><SHORT-NAME>rq_{n}</SHORT-NAME><PARAMS>{ps}</PARAMS></REQUEST>'
        for j,r in enumerate(s["pos"]):
            ps=cc("sid",0,r["first"]&0xff); pos=1
            if r["echo"]: ps+=mr("echo",pos,1,r["echo"]); pos+=r["echo"]
            for k,sz in enumerate(r["vals"]): ps+=vp(f"v{k}",pos,f"u{sz}"); pos+=sz
            prs+=f'<POS-RESPONSE ID="pr.{n}.{j}"><SHORT-NAME>pr_{n}_{j}</SHORT-NAME><PARAMS>{ps}</PARAMS></POS-RESPONSE>'
    return f'<?xml version="1.0"?><ODX MODEL-VERSION="2.2.0" {XSI}><DIAG-LAYER-CONTAINER ID="c"><SHORT-NAME>c</SHORT-NAME><BASE-VARIANTS><BASE-VARIANT ID="bv"><SHORT-NAME>bv</SHORT-NAME><DIAG-DATA-DICTIONARY-SPEC><DATA-OBJECT-PROPS>{dops}</DATA-OBJECT-PROPS></DIAG-DATA-DICTIONARY-SPEC><DIAG-COMMS>{dc}</DIAG-COMMS><REQUESTS>{rqs}</REQUESTS>'+(f'<POS-RESPONSES>{prs}</POS-RESPONSES>' if prs else '')+'</BASE-VARIANT></BASE-VARIANTS></DIAG-LAYER-CONTAINER></ODX>'
def classify(svc,M):
    """MUST / MAY / NOT"""
    best="NOT"
    objs=[]
    rq=svc["rq"]; objs.append((rq["pre"], sum(rq["vals"])))
    for r in svc["pos"]:
        pre=[r["first"]&0xff]+rq["pre"][1:1+r["echo"]]
        objs.append((pre,sum(r["vals"])))
    for pre,nv in objs:
        L=len(pre)+nv
        if len(M)>=L and list(M[:len(pre)])==pre:
            if len(M)==L: return "MUST"
            best="MAY"
    return best
def run(seed,N):
    rnd=random.Random(seed); stats={}; ex={}
    msgs=[bytes(t) for n in range(0,4) for t in itertools.product(ALPHA+[0x50,0x51,0x62,0x01],repeat=n)]
    for it in range(N):
        svcs=gen(rnd)
        # within-service exclusivity: skip services whose request and response share first byte
        db=Database(); db.add_odx_file(io.BytesIO(layer_xml(svcs).encode()))
        try: db.refresh()
        except Exception as e:
            k=("LOAD",type(e).__name__,str(e)[:60]); stats[k]=stats.get(k,0)+1; continue
        bv=db.base_variants.bv
        for M in rnd.sample(msgs,60):
            cls={s["name"]:classify(s,M) for s in svcs}
            must={n for n,c in cls.items() if c=="MUST"}; may={n for n,c in cls.items() if c=="MAY"}
            with warnings.catch_warnings():
                warnings.simplefilter("error",DecodeError)
                try:
                    res=bv.decode(M); got={m.service.short_name for m in res}; exc=None
                except DecodeError as e: got=None; exc="DecodeError"
                except Exception as e: got=None; exc=type(e).__name__+":"+str(e)[:50]
            if got is not None:
                if must<=got and not (got-must-may): key="ok"
                elif not must<=got: key=("MISSING_MUST",)
                else: key=("EXTRA_NOT",)
            else:
                if exc!="DecodeError": key=("FOREIGN",exc)
                elif must: key=("RAISED_DESPITE_MUST", "others_short" )
                else: key="ok_raise" if not may else "ok_raise_may"
            stats[key]=stats.get(key,0)+1
            if key not in ex: ex[key]=(svcs,M.hex(),cls,got,exc)
    return stats,ex
st,ex=run(int(sys.argv[1]),int(sys.argv[2]))
for k,v in sorted(st.items(),key=lambda kv:-kv[1]): print(v,k)
for k in ex:
    if k not in("ok","ok_raise","ok_raise_may"): print(k, ex[k])
