#!/usr/bin/env bash
# setup_cmd: offline install of the third-party tools the checks need into /verif/.deps
# (git-ignored).  Idempotent; nothing is fetched from a network.
set -u
cd "$(dirname "$0")"
PY=${VERIF_PYTHON:-/venv/bin/python}
WH=/opt/veriftools/wheels
mkdir -p .deps
need=""
for m in hypothesis jsonschema atheris; do
  if ! PYTHONPATH="$PWD/.deps" "$PY" -c "import $m" >/dev/null 2>&1; then need="$need $m"; fi
done
if [ -n "$need" ]; then
  for m in $need; do
    PIP_NO_INDEX=1 "$PY" -m pip install --quiet --no-index --find-links "$WH" --target "$PWD/.deps" --upgrade "$m" >/dev/null 2>&1 \
      || echo "setup: could not install $m (continuing; checks degrade gracefully for atheris only)" >&2
  done
fi
PYTHONPATH="$PWD/.deps" "$PY" -c "import hypothesis, jsonschema" || { echo "setup: hypothesis/jsonschema unavailable" >&2; exit 2; }
echo "setup ok"
